//! C01 — k-fold splitting partitions the samples and leaves the dataset intact.
//!
//! Exhaustive sweep (DESIGN.md §4 C01) over every (n, k, features, target shape, storage kind,
//! element types) up to the bound, on identity-tagged rows: row i carries 100*i+j in record column j
//! and 10000+100*i+c in target column c, so that every row of every part returned by the real code
//! can be decoded back to "which sample is this, and is its target still attached".
//!
//! * `fold`: all k (training, validation) pairs against a reference k-fold on a plain Vec.
//! * `iter_fold`: explored as the state machine it is. The closure is the probe: at every call it
//!   copies the training view it is shown (the visible part of the permuted buffer); the yielded
//!   validation views and the dataset after the call complete the observation. A reference buffer
//!   is stepped in lock-step (swap-in, fit, swap-back) and states / transitions are counted.
//! * `cross_validate` / `cross_validate_single`: mock models (real `Fit` / `PredictInplace` impls)
//!   whose fit memorises an order-independent fingerprint of the training rows, whose predictions
//!   are a function of (row tag, model id, fingerprint); a menu of evaluation closures; a fault
//!   menu (fit error for model a at fold b, eval error for model a at fold b, both). Oracle: scores
//!   == hand-rolled loop over the reference folds, every fit / eval call saw legitimate arguments,
//!   injected errors surface, dataset bit-identical afterwards (Ok or Err).
//! * k = 0, k = 1, k > n and non-contiguous storage: documented behaviour only.

use linfa::dataset::{DatasetBase, TargetDim};
use linfa::traits::{Fit, PredictInplace};
use linfa::ParamGuard;
use lvmc_core::{close, guarded, json, par_sweep, Ctx, Level, Value, Violation};
use ndarray::{
    Array, Array1, Array2, ArrayBase, ArrayD, ArrayView, ArrayView2, ArrayViewMut, ArrayViewMut2, Axis, Data, DataMut,
    Dimension, Ix1, Ix2, IxDyn, RawData, ShapeBuilder, Slice,
};
use serde::{Deserialize, Serialize};
use std::cell::RefCell;
use std::collections::{BTreeMap, HashMap, HashSet};
use std::rc::Rc;
use std::sync::Mutex;

// ------------------------------------------------------------------------------------------------
// cases
// ------------------------------------------------------------------------------------------------

#[derive(Clone, Debug, Serialize, Deserialize, PartialEq)]
struct FaultSpec {
    kind: String, // none | fit | eval | both
    model: usize, // fit / eval fault: which model
    fold: usize,  // ... at which fold
    model2: usize, // "both": the eval fault
    fold2: usize,
}

impl FaultSpec {
    fn none() -> Self {
        FaultSpec { kind: "none".into(), model: 0, fold: 0, model2: 0, fold2: 0 }
    }
    fn fit_fault(&self) -> Option<(usize, usize)> {
        match self.kind.as_str() {
            "fit" | "both" => Some((self.model, self.fold)),
            _ => None,
        }
    }
    fn eval_fault(&self) -> Option<(usize, usize)> {
        match self.kind.as_str() {
            "eval" => Some((self.model, self.fold)),
            "both" => Some((self.model2, self.fold2)),
            _ => None,
        }
    }
}

#[derive(Clone, Debug, Serialize, Deserialize)]
struct Case {
    op: String, // fold | iter_fold | cv | cv_single | degenerate
    n: usize,
    k: usize,
    f: usize,
    tix: usize,   // 1 = Ix1 targets, 2 = Ix2 targets
    tcols: usize, // target columns (1 for Ix1)
    kind: String, // storage kind, see build_parents
    elem: String, // "f64/f64" | "f32/u32" (record / target element types)
    #[serde(default)]
    m: usize, // cv: number of candidate models
    #[serde(default)]
    eval: String, // cv: evaluation closure
    #[serde(default)]
    fault: Option<FaultSpec>, // cv: None = enumerate the fault menu named by `menu`
    #[serde(default)]
    menu: String, // cv: "full" = every (model, fold) for fit and eval faults; "short" = none, two end points, double fault
    #[serde(default)]
    guarded: bool, // cv / iter_fold_guard: the candidate models are UNCHECKED hyper-parameter sets (ParamGuard blanket Fit)
    #[serde(default)]
    guard: Option<Vec<u8>>, // per model: 0 = valid, 1 = ParamError::ZeroRate, 2 = ParamError::NegativeDepth; None = enumerate
    #[serde(default)]
    styles: String, // cv: "" / "full" = every model overwrites every prediction; "mixed" = model 0 full, the others sparse; "all_sparse"
    #[serde(default)]
    consume: Option<usize>, // iter_fold: items taken before the iterator is dropped; None = {all, 0}
}

const FOLD_KINDS: [&str; 10] = ["owned", "view", "view_strided", "view_cols", "owned_forder", "view_reversed", "view_transposed", "owned_sliced", "owned_sliced_cols", "view_reversed_cols"];
const ITER_KINDS: [&str; 10] = ["owned", "viewmut", "viewmut_window", "viewmut_strided", "owned_forder", "owned_sliced", "viewmut_reversed", "viewmut_transposed", "owned_sliced_cols", "viewmut_reversed_cols"];
const CV_KINDS: [&str; 3] = ["owned", "viewmut", "viewmut_window"];
/// cross validation on an owned array sliced out of a larger allocation (with weights): modest subset
const CV_KINDS_SUBSET: [&str; 1] = ["owned_sliced"];

/// How the dataset's arrays sit in their parent allocation.
///  plain      the arrays are the allocation, standard layout
///  forder     column-major owned arrays
///  strided    every second row of a parent with twice the rows (the others hold poison values)
///  cols       a column range of a wider parent (records: columns 1..=f of f+2; targets alike)
///  window     rows GUARD..GUARD+n of a parent with guard rows; contiguous standard layout, offset start
///  reversed   reversed-row view / array of a parent holding the rows in reverse order (negative stride)
///  reversed_cols reversed FEATURE axis (`slice(s![.., ..;-1])`) of a parent with the columns in reverse
///             order; 2-d targets likewise, 1-d targets a reversed view of a reversed copy
///  transposed transposed view of a feature-major parent (f x n, t x n): column-major strides
fn family(kind: &str) -> &'static str {
    match kind {
        "owned" | "view" | "viewmut" => "plain",
        "owned_forder" => "forder",
        "view_strided" | "viewmut_strided" => "strided",
        "view_cols" | "owned_sliced_cols" => "cols",
        "viewmut_window" | "owned_sliced" => "window",
        "view_reversed" | "viewmut_reversed" => "reversed",
        "view_transposed" | "viewmut_transposed" => "transposed",
        "view_reversed_cols" | "viewmut_reversed_cols" => "reversed_cols",
        _ => panic!("unknown storage kind {}", kind),
    }
}
fn is_owned_kind(kind: &str) -> bool {
    kind.starts_with("owned")
}
const EVALS: [&str; 4] = ["mae", "first", "colsum", "const"];
const TSHAPES: [(usize, usize); 4] = [(1, 1), (2, 1), (2, 2), (2, 3)];
const GUARD: usize = 2;
const ALL: usize = usize::MAX;

// ------------------------------------------------------------------------------------------------
// element types and identity tags
// ------------------------------------------------------------------------------------------------

trait Elem: Copy + PartialEq + std::fmt::Debug + 'static {
    fn from_tag(t: u32) -> Self;
    fn bits(self) -> u64;
}
impl Elem for f64 {
    fn from_tag(t: u32) -> Self {
        t as f64
    }
    fn bits(self) -> u64 {
        self.to_bits()
    }
}
impl Elem for f32 {
    fn from_tag(t: u32) -> Self {
        t as f32
    }
    fn bits(self) -> u64 {
        self.to_bits() as u64
    }
}
impl Elem for u32 {
    fn from_tag(t: u32) -> Self {
        t
    }
    fn bits(self) -> u64 {
        self as u64
    }
}

fn rec_tag(i: usize, j: usize) -> u32 {
    (100 * i + j) as u32
}
fn tgt_tag(i: usize, c: usize) -> u32 {
    (10000 + 100 * i + c) as u32
}
/// Values stored outside the dataset's window (guard rows, interleaved rows, extra columns).
fn decoy(r: usize, j: usize) -> u32 {
    (10_000_000 + 10 * r + j) as u32 // above every tag (n <= 4097), exact in f32
}

/// The rows of one dataset part as the real code returned / showed them (bit patterns).
#[derive(Clone, Debug, PartialEq, Eq)]
struct Part {
    rec: Vec<u64>, // row-major, rows x rec_cols
    tgt: Vec<u64>, // row-major, trows x tgt_cols
    rows: usize,
    trows: usize,
    tdim: usize,
    rec_cols: usize,
    tgt_cols: usize,
}

impl Part {
    fn rec_row(&self, r: usize) -> &[u64] {
        &self.rec[r * self.rec_cols..(r + 1) * self.rec_cols]
    }
    fn tgt_row(&self, r: usize) -> &[u64] {
        &self.tgt[r * self.tgt_cols..(r + 1) * self.tgt_cols]
    }
}

fn part_of<F: Elem, E: Elem, D: Data<Elem = F>, S: Data<Elem = E>, I: Dimension>(r: &ArrayBase<D, Ix2>, t: &ArrayBase<S, I>) -> Part {
    // `iter()` walks in logical (row-major) order whatever the memory layout
    let rec: Vec<u64> = r.iter().map(|x| x.bits()).collect();
    let tgt: Vec<u64> = t.iter().map(|x| x.bits()).collect();
    let tdim = t.ndim();
    let trows = if tdim == 0 { 0 } else { t.shape()[0] };
    let tgt_cols = if tdim >= 2 { t.shape()[1] } else { 1 };
    Part { rec, tgt, rows: r.nrows(), trows, tdim, rec_cols: r.ncols(), tgt_cols }
}

/// Reference model of the dataset: plain vectors of tagged rows.
#[allow(dead_code)]
struct Ref {
    n: usize,
    f: usize,
    t: usize,
    tix: usize,
    rec: Vec<Vec<u64>>,
    tgt: Vec<Vec<u64>>,
    rec0: HashMap<u64, usize>, // first record column (bits) -> sample id
    tgt0: HashMap<u64, usize>, // first target column (bits) -> sample id
}

impl Ref {
    fn new<F: Elem, E: Elem>(c: &Case) -> Ref {
        let rec: Vec<Vec<u64>> = (0..c.n).map(|i| (0..c.f).map(|j| F::from_tag(rec_tag(i, j)).bits()).collect()).collect();
        let tgt: Vec<Vec<u64>> = (0..c.n).map(|i| (0..c.tcols).map(|cc| E::from_tag(tgt_tag(i, cc)).bits()).collect()).collect();
        Ref {
            n: c.n,
            f: c.f,
            t: c.tcols,
            tix: c.tix,
            rec0: rec.iter().enumerate().map(|(i, r)| (r[0], i)).collect(),
            tgt0: tgt.iter().enumerate().map(|(i, r)| (r[0], i)).collect(),
            rec,
            tgt,
        }
    }
    fn rec_id(&self, row: &[u64]) -> Option<usize> {
        row.first().and_then(|b| self.rec0.get(b)).cloned().filter(|&i| self.rec[i] == row)
    }
    fn tgt_id(&self, row: &[u64]) -> Option<usize> {
        row.first().and_then(|b| self.tgt0.get(b)).cloned().filter(|&i| self.tgt[i] == row)
    }
    fn whole(&self) -> Part {
        Part { rec: self.rec.concat(), tgt: self.tgt.concat(), rows: self.n, trows: self.n, tdim: self.tix, rec_cols: self.f, tgt_cols: self.t }
    }
    /// Decode the rows of a part to sample ids; `Err((shape-of-failure, message))`.
    fn decode(&self, p: &Part) -> Result<Vec<usize>, (&'static str, String)> {
        if p.rows != p.trows {
            return Err(("records_targets_length_mismatch", format!("{} record rows but {} target rows", p.rows, p.trows)));
        }
        if p.tdim != self.tix || p.rec_cols != self.f || p.tgt_cols != self.t {
            return Err((
                "wrong_shape",
                format!("part has {} record columns, {}-d targets with {} columns; dataset has {}, {}-d, {}", p.rec_cols, p.tdim, p.tgt_cols, self.f, self.tix, self.t),
            ));
        }
        let mut ids = Vec::with_capacity(p.rows);
        for r in 0..p.rows {
            let (rec, tgt) = (p.rec_row(r), p.tgt_row(r));
            let id = match self.rec_id(rec) {
                Some(i) => i,
                None => return Err(("foreign_record_row", format!("row {}: record bits {:?} are no row of the dataset", r, rec))),
            };
            let tid = match self.tgt_id(tgt) {
                Some(i) => i,
                None => return Err(("foreign_target_row", format!("row {}: target bits {:?} are no target row of the dataset", r, tgt))),
            };
            if tid != id {
                return Err(("record_target_detached", format!("row {}: record of sample {} is paired with the target of sample {}", r, id, tid)));
            }
            ids.push(id);
        }
        Ok(ids)
    }
}

/// Reference k-fold (property statement): fold_size = n div k, validation i = rows [i*fs,(i+1)*fs),
/// training i = the other rows in original order; the tail is training-only.
fn ref_kfold(n: usize, k: usize) -> Vec<(Vec<usize>, Vec<usize>)> {
    let fs = n / k;
    (0..k)
        .map(|i| {
            let valid: Vec<usize> = (i * fs..(i + 1) * fs).collect();
            let train: Vec<usize> = (0..n).filter(|x| !valid.contains(x)).collect();
            (train, valid)
        })
        .collect()
}

// ------------------------------------------------------------------------------------------------
// storage kinds
// ------------------------------------------------------------------------------------------------

/// Parent buffers. The dataset is an owned copy of the window, the parent narrowed in place
/// (`owned_sliced*`: an owned array that does not start at / cover its allocation, as `slice_move`
/// produces) or a (mutable) view into the parent.
fn build_parents<F: Elem, E: Elem>(c: &Case) -> (Array2<F>, ArrayD<E>) {
    let (n, f, t) = (c.n, c.f, c.tcols);
    let two_d = c.tix == 2;
    let fam = family(&c.kind);
    // tag at the logical position (r, j) of the parent BEFORE transposition
    let tag_at = |r: usize, j: usize, width: usize, width_is_cols: bool, real: &dyn Fn(usize, usize) -> u32, poison: u32| -> u32 {
        match fam {
            "strided" => if r % 2 == 0 { real(r / 2, j) } else { decoy(r, j) + poison },
            "cols" => if j >= 1 && j <= width { real(r, j - 1) } else { decoy(r, j) + poison },
            "window" => if r >= GUARD && r < GUARD + n { real(r - GUARD, j) } else { decoy(r, j) + poison },
            "reversed" => real(n - 1 - r, j),
            "reversed_cols" => if width_is_cols { real(r, width - 1 - j) } else { real(n - 1 - r, j) },
            _ => real(r, j),
        }
    };
    let recv = |r: usize, j: usize| -> F { F::from_tag(tag_at(r, j, f, true, &rec_tag, 0)) };
    let tgtv = |r: usize, cc: usize| -> E { E::from_tag(tag_at(r, cc, if two_d { t } else { 1 }, two_d, &tgt_tag, 20000)) };
    let (prow, pcol, tcol, t2d) = match fam {
        "strided" => (2 * n, f, t, two_d),
        "cols" => (n, f + 2, if two_d { t + 1 } else { 2 }, true),
        "window" => (n + 2 * GUARD, f, t, two_d),
        _ => (n, f, t, two_d),
    };
    let rec = match fam {
        "forder" => Array2::from_shape_fn((prow, pcol).f(), |(r, j)| recv(r, j)),
        "transposed" => Array2::from_shape_fn((pcol, prow), |(j, r)| recv(r, j)), // feature-major
        _ => Array2::from_shape_fn((prow, pcol), |(r, j)| recv(r, j)),
    };
    let tgt: ArrayD<E> = if t2d {
        match fam {
            "forder" => Array2::from_shape_fn((prow, tcol).f(), |(r, cc)| tgtv(r, cc)).into_dyn(),
            "transposed" => Array2::from_shape_fn((tcol, prow), |(cc, r)| tgtv(r, cc)).into_dyn(),
            _ => Array2::from_shape_fn((prow, tcol), |(r, cc)| tgtv(r, cc)).into_dyn(),
        }
    } else {
        Array1::from_shape_fn(prow, |r| tgtv(r, 0)).into_dyn()
    };
    (rec, tgt)
}

/// Narrows a parent (array or view) to the dataset's records, in place.
fn narrow_rec<S: RawData>(v: &mut ArrayBase<S, Ix2>, c: &Case) {
    match family(&c.kind) {
        "strided" => v.slice_axis_inplace(Axis(0), Slice::new(0, None, 2)),
        "cols" => v.slice_axis_inplace(Axis(1), Slice::from(1..c.f + 1)),
        "window" => v.slice_axis_inplace(Axis(0), Slice::from(GUARD..GUARD + c.n)),
        "reversed" => v.invert_axis(Axis(0)),
        "reversed_cols" => v.invert_axis(Axis(1)),
        "transposed" => v.swap_axes(0, 1),
        _ => {}
    }
}
/// Narrows a parent (array or view) to the dataset's targets.
fn narrow_tgt<S: RawData, I: TargetDim>(mut v: ArrayBase<S, IxDyn>, c: &Case) -> ArrayBase<S, I> {
    match family(&c.kind) {
        "strided" => v.slice_axis_inplace(Axis(0), Slice::new(0, None, 2)),
        "cols" => {
            if c.tix == 2 {
                v.slice_axis_inplace(Axis(1), Slice::from(1..c.tcols + 1))
            } else {
                v = v.index_axis_move(Axis(1), 1)
            }
        }
        "window" => v.slice_axis_inplace(Axis(0), Slice::from(GUARD..GUARD + c.n)),
        "reversed" => v.invert_axis(Axis(0)),
        "reversed_cols" => {
            let ax = if v.ndim() == 2 { 1 } else { 0 };
            v.invert_axis(Axis(ax))
        }
        "transposed" => {
            if v.ndim() == 2 {
                v.swap_axes(0, 1)
            }
        }
        _ => {}
    }
    v.into_dimensionality::<I>().expect("target dimensionality")
}

fn rec_view<'a, F>(p: &'a Array2<F>, c: &Case) -> ArrayView2<'a, F> {
    let mut v = p.view();
    narrow_rec(&mut v, c);
    v
}
fn rec_view_mut<'a, F>(p: &'a mut Array2<F>, c: &Case) -> ArrayViewMut2<'a, F> {
    let mut v = p.view_mut();
    narrow_rec(&mut v, c);
    v
}
fn tgt_view<'a, E, I: TargetDim>(p: &'a ArrayD<E>, c: &Case) -> ArrayView<'a, E, I> {
    narrow_tgt(p.view(), c)
}
fn tgt_view_mut<'a, E, I: TargetDim>(p: &'a mut ArrayD<E>, c: &Case) -> ArrayViewMut<'a, E, I> {
    narrow_tgt(p.view_mut(), c)
}
/// Owned dataset arrays of the case's kind: "owned" = fresh standard-layout copies; every other
/// owned kind = the parent allocation itself, narrowed in place (what `slice_move` yields).
fn owned_arrays<F: Elem, E: Elem, I: TargetDim>(prec: &Array2<F>, ptgt: &ArrayD<E>, c: &Case) -> (Array2<F>, Array<E, I>) {
    if c.kind == "owned" {
        (rec_view(prec, c).to_owned(), tgt_view::<E, I>(ptgt, c).to_owned())
    } else {
        let mut r = prec.clone();
        narrow_rec(&mut r, c);
        (r, narrow_tgt::<_, I>(ptgt.clone(), c))
    }
}
/// Weights given to the sliced owned kinds: themselves a slice of a larger allocation.
fn sliced_weights(n: usize) -> Array1<f32> {
    let mut w = Array1::from_shape_fn(n + 2 * GUARD, |i| if i >= GUARD && i < GUARD + n { 0.25 * (i - GUARD + 1) as f32 } else { -7.0 });
    w.slice_axis_inplace(Axis(0), Slice::from(GUARD..GUARD + n));
    w
}

fn bits_of<A: Elem, S: Data<Elem = A>, D: Dimension>(a: &ArrayBase<S, D>) -> Vec<u64> {
    a.iter().map(|x| x.bits()).collect()
}

// ------------------------------------------------------------------------------------------------
// counters
// ------------------------------------------------------------------------------------------------

#[derive(Default)]
struct Counters {
    evals: u64,
    nontrivial: u64,
    states: u64,
    transitions: u64,
    traces: u64,
    stats: BTreeMap<String, u64>,
}
impl Counters {
    fn bump(&mut self, k: &str, n: u64) {
        *self.stats.entry(k.to_string()).or_insert(0) += n;
    }
}

/// Long id lists are abbreviated in messages (the case JSON is what replays).
fn short<T: std::fmt::Debug>(v: &[T]) -> String {
    if v.len() <= 24 {
        format!("{:?}", v)
    } else {
        format!("{:?} ... {:?} ({} items)", &v[..10], &v[v.len() - 4..], v.len())
    }
}
fn hash_key(phase: i64, i: i64, ids: &[i64]) -> u64 {
    use std::hash::{Hash, Hasher};
    let mut h = std::collections::hash_map::DefaultHasher::new(); // fixed keys: deterministic
    (phase, i).hash(&mut h);
    ids.hash(&mut h);
    h.finish()
}

fn case_json(c: &Case) -> Value {
    serde_json::to_value(c).unwrap()
}

fn in_domain(c: &Case) -> bool {
    c.k >= 2 && c.k <= c.n
}

// ------------------------------------------------------------------------------------------------
// shared oracle for one (training, validation) pair
// ------------------------------------------------------------------------------------------------

/// Returns (training ids as seen, validation ids as seen) when both parts decode.
fn check_pair(op: &str, i: usize, train: &Part, valid: &Part, rf: &Ref, folds: &[(Vec<usize>, Vec<usize>)], c: &Case, viols: &mut Vec<Violation>) -> Option<Vec<usize>> {
    let tr = match rf.decode(train) {
        Ok(x) => x,
        Err((shape, msg)) => {
            viols.push(Violation::new(format!("{}.training.{}", op, shape), format!("n={} k={} fold {} training part: {}", c.n, c.k, i, msg), case_json(c)));
            return None;
        }
    };
    let va = match rf.decode(valid) {
        Ok(x) => x,
        Err((shape, msg)) => {
            viols.push(Violation::new(format!("{}.validation.{}", op, shape), format!("n={} k={} fold {} validation part: {}", c.n, c.k, i, msg), case_json(c)));
            return None;
        }
    };
    let (etr, eva) = &folds[i];
    if &va != eva {
        viols.push(Violation::new(
            format!("{}.validation_block_wrong", op),
            format!("n={} k={} fold {}: validation samples {}, expected the consecutive block {} (fold size n div k = {})", c.n, c.k, i, short(&va), short(eva), c.n / c.k),
            case_json(c),
        ));
    }
    let mut s = tr.clone();
    s.sort();
    if &s != etr {
        viols.push(Violation::new(
            format!("{}.training_not_complement", op),
            format!("n={} k={} fold {}: training samples {} (validation {}); expected the complement {} (tail included)", c.n, c.k, i, short(&tr), short(&va), short(etr)),
            case_json(c),
        ));
    }
    Some(tr)
}

// ------------------------------------------------------------------------------------------------
// fold
// ------------------------------------------------------------------------------------------------

fn fold_core<F: Elem, E: Elem, I: TargetDim, D: Data<Elem = F>, S: Data<Elem = E>>(
    ds: &DatasetBase<ArrayBase<D, Ix2>, ArrayBase<S, I>>,
    c: &Case,
    rf: &Ref,
    viols: &mut Vec<Violation>,
    cnt: &mut Counters,
) {
    cnt.evals += 1;
    cnt.nontrivial += 1;
    let before = part_of(&ds.records, &ds.targets);
    if before != rf.whole() {
        panic!("harness error: dataset of kind {} does not show the tagged rows", c.kind);
    }
    let wbefore: Vec<u32> = ds.weights.iter().map(|w| w.to_bits()).collect();
    // the pairs are converted and judged one at a time (k = n = 4097 yields 4097 x 4096 rows)
    let res = guarded(|| ds.fold(c.k));
    let folds = ref_kfold(c.n, c.k);
    // closed form of one known wrong behaviour: fold size taken from the number of target ELEMENTS
    let fs_elems = (c.n * c.tcols) / c.k;
    let elems_form_possible = c.tix == 2 && c.tcols >= 2 && fs_elems != c.n / c.k;
    // what the element-count formula would do: chunks of fs_elems rows; no chunk left to concatenate
    // (1 chunk) or the chunk swap running out of range (fewer chunks than folds)
    let elems_chunks = if fs_elems == 0 { 0 } else { (c.n + fs_elems - 1) / fs_elems };
    let elems_panic_text = if elems_chunks <= 1 { "Unsupported".to_string() } else { format!("the len is {} but the index is {}", elems_chunks, elems_chunks) };
    let pairs = match res {
        Ok(p) => p,
        Err(p) => {
            let narrow = elems_form_possible && elems_chunks < c.k && p.contains(&elems_panic_text);
            let sig = if narrow { "fold.ix2_targets.fold_size_from_element_count" } else { "fold.panic" };
            viols.push(Violation::new(
                sig,
                format!(
                    "fold({}) on {} samples x {} features, {}-d targets with {} columns ({}) panicked: {}{}",
                    c.k, c.n, c.f, c.tix, c.tcols, c.kind, p,
                    if narrow { format!(" [fold size computed as targets.len()/k = {} instead of nsamples/k = {}]", fs_elems, c.n / c.k) } else { String::new() }
                ),
                case_json(c),
            ));
            return;
        }
    };
    let first_valid_rows = pairs.first().map(|(_, va)| va.records().nrows()).unwrap_or(0);
    if elems_form_possible && !pairs.is_empty() && first_valid_rows == fs_elems.min(c.n) {
        viols.push(Violation::new(
            "fold.ix2_targets.fold_size_from_element_count",
            format!(
                "fold({}) on {} samples with {} target columns: validation part 0 has {} samples = min(n, n*t div k = {}), expected n div k = {} ({} pairs returned)",
                c.k, c.n, c.tcols, first_valid_rows, fs_elems, c.n / c.k, pairs.len()
            ),
            case_json(c),
        ));
        return;
    }
    if pairs.len() != c.k {
        viols.push(Violation::new("fold.wrong_fold_count", format!("fold({}) on {} samples returned {} pairs", c.k, c.n, pairs.len()), case_json(c)));
        return;
    }
    for (i, (trd, vad)) in pairs.into_iter().enumerate() {
        let (tr, va) = (part_of(trd.records(), trd.targets()), part_of(vad.records(), vad.targets()));
        drop((trd, vad));
        if let Some(ids) = check_pair("fold", i, &tr, &va, rf, &folds, c, viols) {
            if ids == folds[i].0 {
                cnt.bump("fold_training_parts_in_original_order", 1);
            } else {
                cnt.bump("fold_training_parts_in_other_order", 1);
            }
        }
    }
    if part_of(&ds.records, &ds.targets) != before {
        viols.push(Violation::new("fold.dataset_modified", format!("fold({}) changed the dataset it borrows immutably", c.k), case_json(c)));
    }
    if ds.weights.iter().map(|w| w.to_bits()).collect::<Vec<u32>>() != wbefore {
        viols.push(Violation::new("fold.weights_modified", format!("fold({}) changed the weights of the dataset", c.k), case_json(c)));
    }
}

fn run_fold<F: Elem, E: Elem, I: TargetDim>(c: &Case, viols: &mut Vec<Violation>, cnt: &mut Counters) {
    let rf = Ref::new::<F, E>(c);
    let (prec, ptgt) = build_parents::<F, E>(c);
    if is_owned_kind(&c.kind) {
        let (r, t) = owned_arrays::<F, E, I>(&prec, &ptgt, c);
        let mut ds = DatasetBase::new(r, t);
        if c.kind.starts_with("owned_sliced") {
            ds = ds.with_weights(sliced_weights(c.n));
        }
        fold_core(&ds, c, &rf, viols, cnt);
    } else {
        let ds = DatasetBase::new(rec_view(&prec, c), tgt_view::<E, I>(&ptgt, c));
        fold_core(&ds, c, &rf, viols, cnt);
    }
}

// ------------------------------------------------------------------------------------------------
// iter_fold as a state machine
// ------------------------------------------------------------------------------------------------

fn restored_sig(op: &str, before: &Part, after: &Part) -> String {
    let r = before.rec != after.rec;
    let t = before.tgt != after.tgt;
    format!("{}.dataset_not_restored.{}", op, if r && t { "records_and_targets" } else if r { "records" } else { "targets" })
}

fn ids_lossy(rf: &Ref, p: &Part) -> Vec<i64> {
    if p.rec_cols != rf.f {
        return vec![-1; p.rows];
    }
    (0..p.rows).map(|r| rf.rec_id(p.rec_row(r)).map(|x| x as i64).unwrap_or(-1)).collect()
}
fn tgt_ids_lossy(rf: &Ref, p: &Part) -> Vec<i64> {
    if p.tgt_cols != rf.t {
        return vec![-1; p.trows];
    }
    (0..p.trows).map(|r| rf.tgt_id(p.tgt_row(r)).map(|x| x as i64).unwrap_or(-1)).collect()
}

fn iter_fold_core<F: Elem, E: Elem, I: TargetDim, D: DataMut<Elem = F>, S: DataMut<Elem = E>>(
    ds: &mut DatasetBase<ArrayBase<D, Ix2>, ArrayBase<S, I>>,
    c: &Case,
    rf: &Ref,
    consume: usize,
    viols: &mut Vec<Violation>,
    cnt: &mut Counters,
) {
    cnt.evals += 1;
    let before = part_of(&ds.records, &ds.targets);
    if before != rf.whole() {
        panic!("harness error: dataset of kind {} does not show the tagged rows", c.kind);
    }
    let standard = ds.records.is_standard_layout() && ds.targets.is_standard_layout();
    let calls: RefCell<Vec<Part>> = RefCell::new(Vec::new());
    let res = guarded(|| {
        let it = ds.iter_fold(c.k, |train| {
            let p = part_of(train.records(), train.targets());
            let no = calls.borrow().len();
            calls.borrow_mut().push(p);
            no
        });
        it.take(consume).map(|(no, valid)| (no, part_of(valid.records(), valid.targets()))).collect::<Vec<_>>()
    });
    let after = part_of(&ds.records, &ds.targets);
    let calls = calls.into_inner();
    let mut cj = case_json(c);
    cj.as_object_mut().unwrap().insert("consume".into(), if consume == ALL { Value::Null } else { json!(consume) });

    if !standard {
        // documented panic: "the dataset's data is not stored contiguously and in standard order"
        match res {
            Err(_) => cnt.bump("iter_fold_documented_panics_noncontiguous", 1),
            Ok(_) => viols.push(Violation::new(
                "iter_fold.documented_panic_missing.noncontiguous",
                format!("iter_fold({}) on a dataset that is not in standard layout ({}) did not panic as documented", c.k, c.kind),
                cj.clone(),
            )),
        }
        return;
    }
    cnt.nontrivial += 1;
    cnt.traces += 1;
    let folds = ref_kfold(c.n, c.k);
    let fs = c.n / c.k;

    // ---- explicit states: what the probe saw, in order -------------------------------------------
    let mut seen: HashSet<u64> = HashSet::new();
    let mut key = |phase: i64, i: i64, ids: Vec<i64>| {
        seen.insert(hash_key(phase, i, &ids));
    };
    key(0, 0, ids_lossy(rf, &before));
    // lock-step reference buffer: swap-in(c), fit(c), swap-back(c)
    let mut refbuf: Vec<i64> = (0..c.n as i64).collect();
    for (no, p) in calls.iter().enumerate() {
        let vis = ids_lossy(rf, p);
        key(1, no as i64, vis.clone());
        if no < c.k {
            let swap = |b: &mut Vec<i64>| {
                for x in 0..fs {
                    b.swap(x, no * fs + x);
                }
            };
            swap(&mut refbuf); // transition: swap-in
            if refbuf[fs..] == vis[..] {
                cnt.bump("iter_fold_visible_buffer_equals_reference_swap_model", 1);
            } else {
                cnt.bump("iter_fold_visible_buffer_differs_from_reference_swap_model", 1);
            }
            swap(&mut refbuf); // transition: swap-back
        }
        cnt.transitions += 3; // swap-in, fit, swap-back
    }

    match res {
        Err(p) => {
            viols.push(Violation::new("iter_fold.panic", format!("iter_fold({}) on {} samples ({}) panicked: {}", c.k, c.n, c.kind, p), cj.clone()));
        }
        Ok(list) => {
            cnt.transitions += list.len() as u64; // yields
            if consume == ALL && list.len() != c.k {
                viols.push(Violation::new("iter_fold.wrong_fold_count", format!("iter_fold({}) on {} samples yielded {} pairs", c.k, c.n, list.len()), cj.clone()));
            }
            if calls.len() != c.k {
                cnt.bump("iter_fold_closure_calls_differ_from_k", 1);
            }
            for (i, (no, valid)) in list.iter().enumerate() {
                key(2, i as i64, ids_lossy(rf, valid));
                if i < c.k {
                    // the object paired with validation view i is what the closure returned at call `no`
                    check_pair("iter_fold", i, &calls[*no], valid, rf, &folds, c, viols);
                }
            }
            // a training view shown to the closure but never paired (iterator dropped early) must
            // still be a legitimate training part of its fold
            if consume != ALL {
                for (no, p) in calls.iter().enumerate().skip(list.len()) {
                    if no < c.k {
                        match rf.decode(p) {
                            Ok(mut ids) => {
                                ids.sort();
                                if ids != folds[no].0 {
                                    viols.push(Violation::new(
                                        "iter_fold.training_not_complement",
                                        format!("n={} k={} closure call {}: training samples {}, expected the complement of block {}: {}", c.n, c.k, no, short(&ids), no, short(&folds[no].0)),
                                        cj.clone(),
                                    ));
                                }
                            }
                            Err((shape, msg)) => viols.push(Violation::new(format!("iter_fold.training.{}", shape), format!("n={} k={} closure call {}: {}", c.n, c.k, no, msg), cj.clone())),
                        }
                    }
                }
            }
        }
    }
    key(3, 0, ids_lossy(rf, &after));
    cnt.states += seen.len() as u64;
    if after != before {
        viols.push(Violation::new(
            restored_sig("iter_fold", &before, &after),
            format!(
                "after iter_fold({}) on {} samples ({} features, {} target columns, {}) the dataset holds samples {} with target rows of samples {}; expected the original order 0..{}",
                c.k, c.n, c.f, c.tcols, c.kind,
                short(&ids_lossy(rf, &after)),
                short(&tgt_ids_lossy(rf, &after)),
                c.n
            ),
            cj.clone(),
        ));
    }
}

/// Runs `body` on a freshly built mutable dataset of the case's kind; afterwards checks that the
/// parent buffer outside the dataset's window (guard rows, interleaved rows) was not written and,
/// for the sliced owned kinds, that the weights are what they were.
macro_rules! with_mut_dataset {
    ($F:ty, $E:ty, $I:ty, $c:expr, $op:expr, $viols:expr, |$ds:ident| $body:block) => {{
        let c: &Case = $c;
        let (mut prec, mut ptgt) = build_parents::<$F, $E>(c);
        if is_owned_kind(&c.kind) {
            let (r, t) = owned_arrays::<$F, $E, $I>(&prec, &ptgt, c);
            let mut d = DatasetBase::new(r, t);
            let sliced = c.kind.starts_with("owned_sliced");
            if sliced {
                d = d.with_weights(sliced_weights(c.n));
            }
            let wbefore: Vec<u32> = d.weights.iter().map(|w| w.to_bits()).collect();
            let vis = part_of(&d.records, &d.targets);
            {
                let $ds = &mut d;
                $body
            }
            if d.weights.iter().map(|w| w.to_bits()).collect::<Vec<u32>>() != wbefore {
                $viols.push(Violation::new(format!("{}.weights_modified", $op), format!("{} on a {} dataset changed the sample weights", $op, c.kind), case_json(c)));
            }
            if sliced && part_of(&d.records, &d.targets) == vis {
                // the whole allocations, in memory order: everything outside the window must be untouched
                let raw_r: Vec<u64> = d.records.into_raw_vec().into_iter().map(|x| x.bits()).collect();
                let raw_t: Vec<u64> = d.targets.into_raw_vec().into_iter().map(|x| x.bits()).collect();
                let par_r: Vec<u64> = prec.clone().into_raw_vec().into_iter().map(|x| x.bits()).collect();
                let par_t: Vec<u64> = ptgt.clone().into_raw_vec().into_iter().map(|x| x.bits()).collect();
                if raw_r != par_r || raw_t != par_t {
                    $viols.push(Violation::new(
                        format!("{}.wrote_outside_dataset_window", $op),
                        format!("{} on a {} dataset changed elements of the allocation that do not belong to the array", $op, c.kind),
                        case_json(c),
                    ));
                }
            }
        } else {
            let rb = bits_of(&prec);
            let tb = bits_of(&ptgt);
            let vis_r: Vec<u64> = bits_of(&rec_view(&prec, c));
            let vis_t: Vec<u64> = bits_of(&tgt_view::<$E, $I>(&ptgt, c));
            {
                let mut d = DatasetBase::new(rec_view_mut(&mut prec, c), tgt_view_mut::<$E, $I>(&mut ptgt, c));
                let $ds = &mut d;
                $body
            }
            // rows visible through the window are judged by the body; here: everything else
            let window_same = bits_of(&rec_view(&prec, c)) == vis_r && bits_of(&tgt_view::<$E, $I>(&ptgt, c)) == vis_t;
            if window_same && (bits_of(&prec) != rb || bits_of(&ptgt) != tb) {
                $viols.push(Violation::new(
                    format!("{}.wrote_outside_dataset_window", $op),
                    format!("{} on a {} dataset changed buffer elements that do not belong to the dataset (guard / interleaved rows)", $op, c.kind),
                    case_json(c),
                ));
            }
        }
    }};
}

fn run_iter_fold<F: Elem, E: Elem, I: TargetDim>(c: &Case, viols: &mut Vec<Violation>, cnt: &mut Counters) {
    let rf = Ref::new::<F, E>(c);
    let consumes: Vec<usize> = match c.consume {
        Some(x) => vec![x],
        None => vec![ALL, 0],
    };
    for consume in consumes {
        with_mut_dataset!(F, E, I, c, "iter_fold", viols, |ds| {
            iter_fold_core(ds, c, &rf, consume, viols, cnt);
        });
    }
}

// ------------------------------------------------------------------------------------------------
// cross validation: mock models
// ------------------------------------------------------------------------------------------------

#[derive(Debug)]
#[allow(dead_code)] // payloads are read through Debug
enum MockError {
    Linfa(linfa::Error),
    Fit(String),
    Param(ParamError),
}
/// Error of the hyper-parameter check of `GuardedParams`: one distinguishable variant per failure.
/// `MockError: From<ParamError>` and `MockError: From<linfa::Error>` give DIFFERENT variants, so a
/// checking error that is re-packed on its way out of cross validation is visible.
#[derive(Debug, Clone, PartialEq)]
enum ParamError {
    ZeroRate { model: usize },
    NegativeDepth { model: usize },
}
impl std::fmt::Display for ParamError {
    fn fmt(&self, f: &mut std::fmt::Formatter<'_>) -> std::fmt::Result {
        write!(f, "{:?}", self)
    }
}
impl std::error::Error for ParamError {}
impl From<ParamError> for MockError {
    fn from(e: ParamError) -> Self {
        MockError::Param(e)
    }
}
fn param_error(code: u8, model: usize) -> Option<ParamError> {
    match code {
        1 => Some(ParamError::ZeroRate { model }),
        2 => Some(ParamError::NegativeDepth { model }),
        _ => None,
    }
}
impl std::fmt::Display for MockError {
    fn fmt(&self, f: &mut std::fmt::Formatter<'_>) -> std::fmt::Result {
        write!(f, "{:?}", self)
    }
}
impl std::error::Error for MockError {}
impl From<linfa::Error> for MockError {
    fn from(e: linfa::Error) -> Self {
        MockError::Linfa(e)
    }
}

/// Order-independent over rows, order-dependent inside a row (so a detached target changes it).
fn fp_row(rec: &[u64], tgt: &[u64]) -> u64 {
    let mut h = 0xcbf2_9ce4_8422_2325u64;
    for &x in rec.iter().chain(tgt.iter()) {
        h = (h ^ x).wrapping_mul(0x0000_0100_0000_01b3);
        h ^= h >> 29;
    }
    h
}
fn fingerprint(p: &Part) -> u64 {
    (0..p.rows.min(p.trows)).fold(0u64, |a, r| a.wrapping_add(fp_row(p.rec_row(r), p.tgt_row(r))))
}
/// Model ids sit above every row-dependent part of a prediction (3*4096 + 14 + 64 << 1e6), so the
/// evaluation closure can tell which model a prediction vector came from.
const MODEL_STRIDE: f64 = 1.0e6;
/// Prediction of model `mid` (trained on rows with fingerprint `fp`) for the row with tag rowid.
fn pred_value(rowid: f64, col: usize, mid: usize, fp: u64) -> f64 {
    3.0 * rowid + 7.0 * col as f64 + MODEL_STRIDE * (mid as f64 + 1.0) + (fp % 512) as f64 / 8.0
}

/// Sparse models: `predict_inplace` only writes the rows its rule fires for and relies on its own
/// `default_target` (a model-specific fallback value, column-major for 2-d targets) for the others.
/// `PredictInplace` allows exactly that, so the array an evaluation sees for model j must be
/// `model_j.predict(validation records)` and nothing left over from another model.
fn is_sparse(styles: &str, mid: usize) -> bool {
    match styles {
        "mixed" => mid > 0,
        "all_sparse" => true,
        _ => false,
    }
}
fn rule_fires(rowid: f64, mid: usize) -> bool {
    ((rowid.max(0.0) as usize) + mid) % 2 == 0
}
fn fallback_value(mid: usize, col: usize) -> f64 {
    MODEL_STRIDE * (mid as f64 + 1.0) + 900_000.0 + col as f64
}
/// What `model.predict(records)` is for the row with tag rowid (reference side and mock side).
fn model_prediction(sparse: bool, rowid: f64, col: usize, mid: usize, fp: u64) -> f64 {
    if !sparse || rule_fires(rowid, mid) {
        pred_value(rowid, col, mid, fp)
    } else {
        fallback_value(mid, col)
    }
}

struct FitCall {
    part: Part,
}

struct MockParams {
    id: usize,
    fs: usize,
    k: usize,
    fail_fold: Option<usize>,
    sparse: bool,
    log: Rc<RefCell<Vec<FitCall>>>,
}
struct MockModel {
    id: usize,
    fp: u64,
    t: usize,
    sparse: bool,
}

/// Unchecked hyper-parameters: `Fit` comes from linfa's blanket impl for `ParamGuard`
/// (src/param_guard.rs): check_ref()? then fit on the checked parameters (= `MockParams`).
struct GuardedParams {
    inner: MockParams,
    bad: Option<ParamError>,
}
impl ParamGuard for GuardedParams {
    type Checked = MockParams;
    type Error = ParamError;
    fn check_ref(&self) -> Result<&MockParams, ParamError> {
        match &self.bad {
            Some(e) => Err(e.clone()),
            None => Ok(&self.inner),
        }
    }
    fn check(self) -> Result<MockParams, ParamError> {
        match self.bad {
            Some(e) => Err(e),
            None => Ok(self.inner),
        }
    }
}
fn make_guarded(c: &Case, fault: &FaultSpec, guard: &[u8], log: &Rc<RefCell<Vec<FitCall>>>) -> Vec<GuardedParams> {
    make_params(c, fault, log)
        .into_iter()
        .enumerate()
        .map(|(i, inner)| GuardedParams { inner, bad: param_error(guard.get(i).cloned().unwrap_or(0), i) })
        .collect()
}
fn guard_menu(m: usize) -> Vec<Vec<u8>> {
    let mut v = vec![vec![0u8; m]];
    for p in 0..m {
        for code in 1..=2u8 {
            let mut g = vec![0u8; m];
            g[p] = code;
            v.push(g);
        }
    }
    if m >= 2 {
        let mut g = vec![0u8; m];
        g[0] = 1;
        g[m - 1] = 2;
        v.push(g);
    }
    v
}
/// The errors that may surface for a guard assignment, written down absolutely (not through any `From`).
fn guard_errors(guard: &[u8]) -> Vec<String> {
    guard.iter().enumerate().filter_map(|(i, &code)| param_error(code, i)).map(|e| format!("{:?}", MockError::Param(e))).collect()
}

impl<'c, I: TargetDim> Fit<ArrayView2<'c, f64>, ArrayView<'c, f64, I>, MockError> for MockParams {
    type Object = MockModel;
    fn fit(&self, ds: &DatasetBase<ArrayView2<'c, f64>, ArrayView<'c, f64, I>>) -> Result<MockModel, MockError> {
        let part = part_of(ds.records(), ds.targets());
        // which block is held out, judged from the rows actually shown
        let span = self.k * self.fs;
        let mut present = vec![false; span];
        for r in 0..part.rows {
            let id = (f64::from_bits(part.rec_row(r)[0]) / 100.0).floor();
            if id >= 0.0 && (id as usize) < span {
                present[id as usize] = true;
            }
        }
        let held = present.iter().position(|&p| !p).map(|x| x / self.fs.max(1));
        let fp = fingerprint(&part);
        let t = part.tgt_cols;
        self.log.borrow_mut().push(FitCall { part });
        if let (Some(ff), Some(h)) = (self.fail_fold, held) {
            if ff == h {
                return Err(MockError::Fit(format!("fit-fault model={} fold={}", self.id, h)));
            }
        }
        Ok(MockModel { id: self.id, fp, t, sparse: self.sparse })
    }
}

impl<'b, I: TargetDim> PredictInplace<ArrayView2<'b, f64>, Array<f64, I>> for MockModel {
    fn predict_inplace<'a>(&'a self, x: &'a ArrayView2<'b, f64>, y: &mut Array<f64, I>) {
        let mut yd = y.view_mut().into_dyn();
        let one_d = yd.ndim() == 1;
        for r in 0..x.nrows() {
            let rowid = (x[(r, 0)] / 100.0).floor();
            if self.sparse && !rule_fires(rowid, self.id) {
                continue; // this row keeps what default_target put there
            }
            for cc in 0..self.t {
                let v = pred_value(rowid, cc, self.id, self.fp);
                if one_d {
                    yd[IxDyn(&[r])] = v;
                } else {
                    yd[IxDyn(&[r, cc])] = v;
                }
            }
        }
    }
    fn default_target(&self, x: &ArrayView2<'b, f64>) -> Array<f64, I> {
        let one_d = I::NDIM == Some(1);
        let sh: Vec<usize> = if one_d { vec![x.nrows()] } else { vec![x.nrows(), self.t] };
        if self.sparse {
            let id = self.id;
            ArrayD::from_shape_fn(IxDyn(&sh).f(), |ix| fallback_value(id, if one_d { 0 } else { ix[1] })).into_dimensionality::<I>().unwrap()
        } else {
            ArrayD::zeros(IxDyn(&sh)).into_dimensionality::<I>().unwrap()
        }
    }
}

/// The evaluation menu on plain vectors (the closure handed to linfa and the hand-rolled reference
/// loop both call this; what is under test is the plumbing around it).
fn eval_fn(kind: &str, pred: &[Vec<f64>], truth: &[Vec<f64>], t: usize) -> Vec<f64> {
    let rows = pred.len().min(truth.len());
    (0..t)
        .map(|cc| {
            let g = |a: &[Vec<f64>], r: usize| a.get(r).and_then(|x| x.get(cc)).cloned().unwrap_or(0.0);
            match kind {
                "mae" => {
                    let mut s = 0.0;
                    for r in 0..rows {
                        s += (g(pred, r) - g(truth, r)).abs();
                    }
                    if rows == 0 { 0.0 } else { s / rows as f64 }
                }
                "first" => g(pred, 0) - g(truth, 0),
                "colsum" => {
                    let mut s = 0.0;
                    for r in 0..rows {
                        s += g(pred, r);
                    }
                    (cc as f64 + 1.0) * s + rows as f64
                }
                _ => 1.5 + cc as f64, // "const"
            }
        })
        .collect()
}

fn rows_f64<S: Data<Elem = f64>, I: Dimension>(a: &ArrayBase<S, I>) -> Vec<Vec<f64>> {
    let d = a.view().into_dyn();
    if d.ndim() == 1 {
        d.iter().map(|&x| vec![x]).collect()
    } else {
        let (r, c) = (d.shape()[0], d.shape()[1]);
        (0..r).map(|i| (0..c).map(|j| d[IxDyn(&[i, j])]).collect()).collect()
    }
}
fn to_bits(a: &[Vec<f64>]) -> Vec<Vec<u64>> {
    a.iter().map(|r| r.iter().map(|x| x.to_bits()).collect()).collect()
}

type EvalLog = RefCell<Vec<(Vec<Vec<u64>>, Vec<Vec<u64>>)>>;

/// Body of the evaluation closure: logs its arguments, injects the eval fault, evaluates.
fn eval_body(c: &Case, fault: &FaultSpec, log: &EvalLog, p: Vec<Vec<f64>>, t: Vec<Vec<f64>>) -> Result<Vec<f64>, linfa::Error> {
    log.borrow_mut().push((to_bits(&p), to_bits(&t)));
    let fs = (c.n / c.k.max(1)).max(1);
    let model = p.first().and_then(|r| r.first()).map(|&x| ((x / MODEL_STRIDE).floor() as i64 - 1).max(0) as usize);
    let fold = t.first().and_then(|r| r.first()).map(|&x| (((x - 10000.0) / 100.0).floor().max(0.0) as usize) / fs);
    if let (Some((fm, ff)), Some(m), Some(fo)) = (fault.eval_fault(), model, fold) {
        if fm == m && ff == fo {
            return Err(linfa::Error::Parameters(format!("eval-fault model={} fold={}", m, fo)));
        }
    }
    Ok(eval_fn(&c.eval, &p, &t, c.tcols))
}

struct CvExpect {
    scores: Vec<Vec<f64>>,                                  // [model][target column]
    train_sets: Vec<Vec<usize>>,                            // per fold, sorted ids
    eval_calls: Vec<(Vec<Vec<u64>>, Vec<Vec<u64>>)>,        // (pred bits, truth bits) per (fold, model)
}

/// Hand-rolled cross validation over the reference folds (same float order as the definition:
/// per-fold evaluation added to a zero accumulator in fold order, then divided by k).
fn ref_cv(rf: &Ref, c: &Case) -> CvExpect {
    let folds = ref_kfold(c.n, c.k);
    let mut acc = vec![vec![0.0f64; rf.t]; c.m];
    let mut eval_calls = Vec::new();
    for (train, valid) in folds.iter() {
        let fp = train.iter().fold(0u64, |a, &i| a.wrapping_add(fp_row(&rf.rec[i], &rf.tgt[i])));
        let truth: Vec<Vec<f64>> = valid.iter().map(|&i| rf.tgt[i].iter().map(|&b| f64::from_bits(b)).collect()).collect();
        for mid in 0..c.m {
            let pred: Vec<Vec<f64>> = valid.iter().map(|&i| (0..rf.t).map(|cc| model_prediction(is_sparse(&c.styles, mid), i as f64, cc, mid, fp)).collect()).collect();
            let e = eval_fn(&c.eval, &pred, &truth, rf.t);
            for cc in 0..rf.t {
                acc[mid][cc] += 0.0 + e[cc];
            }
            eval_calls.push((to_bits(&pred), to_bits(&truth)));
        }
    }
    for row in acc.iter_mut() {
        for x in row.iter_mut() {
            *x /= c.k as f64;
        }
    }
    CvExpect { scores: acc, train_sets: folds.into_iter().map(|(t, _)| t).collect(), eval_calls }
}

type CvOutcome = Result<Result<ArrayD<f64>, String>, String>;

fn make_params(c: &Case, fault: &FaultSpec, log: &Rc<RefCell<Vec<FitCall>>>) -> Vec<MockParams> {
    (0..c.m)
        .map(|id| MockParams {
            id,
            fs: c.n / c.k.max(1),
            k: c.k,
            fail_fold: fault.fit_fault().and_then(|(fm, ff)| if fm == id { Some(ff) } else { None }),
            sparse: is_sparse(&c.styles, id),
            log: log.clone(),
        })
        .collect()
}

fn cv_call_with<I: TargetDim, D: DataMut<Elem = f64>, S: DataMut<Elem = f64>, M>(
    ds: &mut DatasetBase<ArrayBase<D, Ix2>, ArrayBase<S, I>>,
    c: &Case,
    fault: &FaultSpec,
    params: &[M],
    eval_log: &EvalLog,
) -> CvOutcome
where
    M: for<'c> Fit<ArrayView2<'c, f64>, ArrayView<'c, f64, I>, MockError, Object = MockModel>,
{
    let one_d = I::NDIM == Some(1);
    let tcols = c.tcols;
    guarded(|| {
        let r: Result<Array<f64, I>, MockError> = ds.cross_validate(c.k, params, |pred: &Array<f64, I>, truth: &ArrayView<f64, I>| {
            let v = eval_body(c, fault, eval_log, rows_f64(pred), rows_f64(truth))?;
            let sh: Vec<usize> = if one_d { vec![] } else { vec![tcols] };
            Ok(ArrayD::from_shape_vec(IxDyn(&sh), if one_d { vec![v[0]] } else { v })
                .unwrap()
                .into_dimensionality::<I::Smaller>()
                .unwrap())
        });
        r.map(|a| a.into_dyn()).map_err(|e| format!("{:?}", e))
    })
}

fn cv_call<I: TargetDim, D: DataMut<Elem = f64>, S: DataMut<Elem = f64>>(
    ds: &mut DatasetBase<ArrayBase<D, Ix2>, ArrayBase<S, I>>,
    c: &Case,
    fault: &FaultSpec,
    guard: &[u8],
    fit_log: &Rc<RefCell<Vec<FitCall>>>,
    eval_log: &EvalLog,
) -> CvOutcome {
    if c.guarded {
        let params = make_guarded(c, fault, guard, fit_log);
        cv_call_with(ds, c, fault, &params, eval_log)
    } else {
        let params = make_params(c, fault, fit_log);
        cv_call_with(ds, c, fault, &params, eval_log)
    }
}

fn cv_single_call_with<D: DataMut<Elem = f64>, S: DataMut<Elem = f64>, M>(
    ds: &mut DatasetBase<ArrayBase<D, Ix2>, ArrayBase<S, Ix1>>,
    c: &Case,
    fault: &FaultSpec,
    params: &[M],
    eval_log: &EvalLog,
) -> CvOutcome
where
    M: for<'c> Fit<ArrayView2<'c, f64>, ndarray::ArrayView1<'c, f64>, MockError, Object = MockModel>,
{
    guarded(|| {
        let r: Result<Array1<f64>, MockError> = ds.cross_validate_single(c.k, params, |pred: &Array1<f64>, truth: &ndarray::ArrayView1<f64>| {
            let v = eval_body(c, fault, eval_log, rows_f64(pred), rows_f64(truth))?;
            Ok(v[0])
        });
        r.map(|a| a.into_dyn()).map_err(|e| format!("{:?}", e))
    })
}

fn cv_single_call<D: DataMut<Elem = f64>, S: DataMut<Elem = f64>>(
    ds: &mut DatasetBase<ArrayBase<D, Ix2>, ArrayBase<S, Ix1>>,
    c: &Case,
    fault: &FaultSpec,
    guard: &[u8],
    fit_log: &Rc<RefCell<Vec<FitCall>>>,
    eval_log: &EvalLog,
) -> CvOutcome {
    if c.guarded {
        let params = make_guarded(c, fault, guard, fit_log);
        cv_single_call_with(ds, c, fault, &params, eval_log)
    } else {
        let params = make_params(c, fault, fit_log);
        cv_single_call_with(ds, c, fault, &params, eval_log)
    }
}

/// (fault, guard assignment) combinations of a cross-validation group.
fn cv_combos(c: &Case) -> Vec<(FaultSpec, Vec<u8>)> {
    if c.guarded {
        let guards = match &c.guard {
            Some(g) => vec![g.clone()],
            None => guard_menu(c.m),
        };
        guards.into_iter().map(|g| (c.fault.clone().unwrap_or_else(FaultSpec::none), g)).collect()
    } else {
        let faults = match &c.fault {
            Some(f) => vec![f.clone()],
            None => fault_menu(c),
        };
        faults.into_iter().map(|f| (f, Vec::new())).collect()
    }
}

fn fault_menu(c: &Case) -> Vec<FaultSpec> {
    let mut v = vec![FaultSpec::none()];
    if c.m == 0 {
        return v; // an empty candidate slice: nothing can fail
    }
    if c.menu == "short" {
        v.push(FaultSpec { kind: "fit".into(), model: c.m - 1, fold: 0, model2: 0, fold2: 0 });
        v.push(FaultSpec { kind: "eval".into(), model: 0, fold: c.k - 1, model2: 0, fold2: 0 });
        v.push(FaultSpec { kind: "both".into(), model: 0, fold: c.k - 1, model2: c.m - 1, fold2: 0 });
        return v;
    }
    for a in 0..c.m {
        for b in 0..c.k {
            v.push(FaultSpec { kind: "fit".into(), model: a, fold: b, model2: 0, fold2: 0 });
            v.push(FaultSpec { kind: "eval".into(), model: a, fold: b, model2: 0, fold2: 0 });
        }
    }
    v.push(FaultSpec { kind: "both".into(), model: 0, fold: c.k - 1, model2: c.m - 1, fold2: 0 });
    v
}

fn expected_errors(fault: &FaultSpec) -> Vec<String> {
    let mut v = Vec::new();
    if let Some((a, b)) = fault.fit_fault() {
        v.push(format!("{:?}", MockError::Fit(format!("fit-fault model={} fold={}", a, b))));
    }
    if let Some((a, b)) = fault.eval_fault() {
        v.push(format!("{:?}", MockError::Linfa(linfa::Error::Parameters(format!("eval-fault model={} fold={}", a, b)))));
    }
    v
}

#[allow(clippy::too_many_arguments)]
fn check_cv(op: &str, c: &Case, fault: &FaultSpec, guard: &[u8], rf: &Ref, exp: &CvExpect, out: CvOutcome, fits: &[FitCall], evals: &[(Vec<Vec<u64>>, Vec<Vec<u64>>)], before: &Part, after: &Part, viols: &mut Vec<Violation>, cnt: &mut Counters) {
    let mut cc = c.clone();
    cc.fault = Some(fault.clone());
    if c.guarded {
        cc.guard = Some(guard.to_vec());
    }
    let cj = case_json(&cc);
    let head = format!(
        "{}(k={}) n={} f={} targets {}-d x{} ({}), {} models ({}{}), eval '{}', fault {:?}",
        op, c.k, c.n, c.f, c.tix, c.tcols, c.kind, c.m,
        if c.styles.is_empty() { "full" } else { c.styles.as_str() },
        if c.guarded { format!(", unchecked parameters with check codes {:?}", guard) } else { String::new() },
        c.eval, fault.kind
    );
    let mut want_err = expected_errors(fault);
    want_err.extend(guard_errors(guard));
    let mut ok_result = false;
    match out {
        Err(p) => viols.push(Violation::new(format!("{}.panic", op), format!("{} panicked: {}", head, p), cj.clone())),
        Ok(Err(e)) => {
            if want_err.is_empty() {
                viols.push(Violation::new(format!("{}.unexpected_error", op), format!("{}: returned Err({}) although no fit / eval failed", head, e), cj.clone()));
            } else if !want_err.contains(&e) {
                viols.push(Violation::new(format!("{}.wrong_error", op), format!("{}: returned Err({}), injected error(s): {:?}", head, e, want_err), cj.clone()));
            } else {
                cnt.bump("cv_injected_errors_surfaced", 1);
            }
        }
        Ok(Ok(scores)) => {
            if !want_err.is_empty() {
                viols.push(Violation::new(
                    format!("{}.error_swallowed", op),
                    format!("{}: returned Ok({:?}) although {:?} was injected", head, scores.iter().collect::<Vec<_>>(), want_err),
                    cj.clone(),
                ));
            } else {
                ok_result = true;
                let want_shape: Vec<usize> = if c.tix == 1 { vec![c.m] } else { vec![c.m, c.tcols] };
                if scores.shape() != want_shape.as_slice() {
                    viols.push(Violation::new(format!("{}.score_shape", op), format!("{}: score array has shape {:?}, expected {:?}", head, scores.shape(), want_shape), cj.clone()));
                } else {
                    'outer: for mid in 0..c.m {
                        for col in 0..c.tcols {
                            let got = if c.tix == 1 { scores[IxDyn(&[mid])] } else { scores[IxDyn(&[mid, col])] };
                            let want = exp.scores[mid][col];
                            if !close(got, want, 1e-12, 0.0) {
                                // closed forms of the usual slips
                                let sum = want * c.k as f64;
                                let sig = if c.m != c.k && close(got, sum / c.m as f64, 1e-12, 0.0) {
                                    format!("{}.score_divided_by_number_of_models", op)
                                } else if c.k != 1 && close(got, sum, 1e-12, 0.0) {
                                    format!("{}.score_is_sum_not_mean", op)
                                } else {
                                    format!("{}.score_not_mean_over_folds", op)
                                };
                                viols.push(Violation::new(
                                    sig,
                                    format!("{}: score[model {}][target {}] = {:e}, mean over the {} reference folds = {:e}", head, mid, col, got, c.k, want),
                                    cj.clone(),
                                ));
                                break 'outer;
                            }
                        }
                    }
                }
            }
        }
    }
    // every fit saw a legitimate training part: the complement of the block it holds out
    let fs = c.n / c.k;
    for (no, fc) in fits.iter().enumerate() {
        match rf.decode(&fc.part) {
            Ok(mut ids) => {
                ids.sort();
                let mut present = vec![false; c.k * fs];
                for &i in ids.iter().filter(|&&i| i < c.k * fs) {
                    present[i] = true;
                }
                let held = present.iter().position(|&p| !p).map(|x| x / fs);
                if held.map_or(true, |h| exp.train_sets[h] != ids) {
                    viols.push(Violation::new(
                        format!("{}.fit_on_wrong_training_set", op),
                        format!("{}: fit call {} was given samples {}, which is the complement of no validation block (blocks of {} samples)", head, no, short(&ids), fs),
                        cj.clone(),
                    ));
                    break;
                }
            }
            Err((shape, msg)) => {
                viols.push(Violation::new(format!("{}.fit_training.{}", op, shape), format!("{}: fit call {}: {}", head, no, msg), cj.clone()));
                break;
            }
        }
    }
    // every evaluation saw (predictions of a model trained on fold i's training part, targets of block i)
    let mut evaluated = vec![false; exp.eval_calls.len()];
    for (no, call) in evals.iter().enumerate() {
        let fold = call.1.first().and_then(|r| rf.tgt_id(r)).map(|i| i / fs);
        let model = call.0.first().and_then(|r| r.first()).map(|&b| ((f64::from_bits(b) / MODEL_STRIDE).floor() as i64 - 1).max(0) as usize);
        let idx = match (fold, model) {
            (Some(fo), Some(mo)) if fo < c.k && mo < c.m => Some(fo * c.m + mo),
            _ => None,
        };
        match idx {
            Some(ix) if &exp.eval_calls[ix] == call => evaluated[ix] = true,
            _ => {
                let p: Vec<Vec<f64>> = call.0.iter().map(|r| r.iter().map(|&b| f64::from_bits(b)).collect()).collect();
                let t: Vec<Vec<f64>> = call.1.iter().map(|r| r.iter().map(|&b| f64::from_bits(b)).collect()).collect();
                // closed form: one prediction array holding values of more than one model
                let mut bands: Vec<i64> = p.iter().flatten().map(|&x| (x / MODEL_STRIDE).floor() as i64 - 1).collect();
                bands.sort();
                bands.dedup();
                let sig_tail = if bands.len() > 1 && bands.iter().all(|&b| b >= 0 && (b as usize) < c.m) { "predictions_mix_several_models" } else { "eval_called_with_wrong_arguments" };
                viols.push(Violation::new(
                    format!("{}.{}", op, sig_tail),
                    format!("{}: evaluation call {} got predictions {} and targets {}: not (predictions of a model fitted on a fold's training part, that fold's validation targets)", head, no, short(&p), short(&t)),
                    cj.clone(),
                ));
                break;
            }
        }
    }
    if ok_result {
        if let Some(miss) = evaluated.iter().position(|&e| !e) {
            viols.push(Violation::new(
                format!("{}.eval_call_missing", op),
                format!("{}: (fold {}, model {}) was never evaluated although Ok was returned", head, miss / c.m, miss % c.m),
                cj.clone(),
            ));
        }
    }
    if after != before {
        viols.push(Violation::new(
            restored_sig(op, before, after),
            format!(
                "after {} the dataset holds samples {} with target rows of samples {}; expected the original order",
                head,
                short(&ids_lossy(rf, after)),
                short(&tgt_ids_lossy(rf, after))
            ),
            cj,
        ));
    }
}

fn run_cv<I: TargetDim>(c: &Case, viols: &mut Vec<Violation>, cnt: &mut Counters) {
    let rf = Ref::new::<f64, f64>(c);
    let exp = ref_cv(&rf, c);
    for (fault, guard) in cv_combos(c).iter() {
        with_mut_dataset!(f64, f64, I, c, "cross_validate", viols, |ds| {
            cnt.evals += 1;
            cnt.nontrivial += 1;
            if c.guarded {
                cnt.bump(&format!("cv_runs_unchecked_params_{}", if guard.iter().any(|&g| g != 0) { "failing_check" } else { "valid" }), 1);
            } else {
                cnt.bump(&format!("cv_runs_fault_{}", fault.kind), 1);
            }
            let before = part_of(&ds.records, &ds.targets);
            let fit_log = Rc::new(RefCell::new(Vec::new()));
            let eval_log: EvalLog = RefCell::new(Vec::new());
            let out = cv_call(ds, c, fault, guard, &fit_log, &eval_log);
            let after = part_of(&ds.records, &ds.targets);
            let fits = fit_log.borrow();
            let evals = eval_log.borrow();
            cnt.bump("cv_fit_calls_observed", fits.len() as u64);
            cnt.bump("cv_eval_calls_observed", evals.len() as u64);
            check_cv("cross_validate", c, fault, guard, &rf, &exp, out, &fits, &evals, &before, &after, viols, cnt);
        });
    }
}

fn run_cv_single(c: &Case, viols: &mut Vec<Violation>, cnt: &mut Counters) {
    let rf = Ref::new::<f64, f64>(c);
    let exp = ref_cv(&rf, c);
    for (fault, guard) in cv_combos(c).iter() {
        with_mut_dataset!(f64, f64, Ix1, c, "cross_validate_single", viols, |ds| {
            cnt.evals += 1;
            cnt.nontrivial += 1;
            if c.guarded {
                cnt.bump(&format!("cv_single_runs_unchecked_params_{}", if guard.iter().any(|&g| g != 0) { "failing_check" } else { "valid" }), 1);
            } else {
                cnt.bump(&format!("cv_single_runs_fault_{}", fault.kind), 1);
            }
            let before = part_of(&ds.records, &ds.targets);
            let fit_log = Rc::new(RefCell::new(Vec::new()));
            let eval_log: EvalLog = RefCell::new(Vec::new());
            let out = cv_single_call(ds, c, fault, guard, &fit_log, &eval_log);
            let after = part_of(&ds.records, &ds.targets);
            let fits = fit_log.borrow();
            let evals = eval_log.borrow();
            cnt.bump("cv_fit_calls_observed", fits.len() as u64);
            cnt.bump("cv_eval_calls_observed", evals.len() as u64);
            check_cv("cross_validate_single", c, fault, guard, &rf, &exp, out, &fits, &evals, &before, &after, viols, cnt);
        });
    }
}

// ------------------------------------------------------------------------------------------------
// iter_fold whose closure fits UNCHECKED parameters (blanket Fit of ParamGuard)
// ------------------------------------------------------------------------------------------------

fn run_iter_fold_guard<I: TargetDim>(c: &Case, viols: &mut Vec<Violation>, cnt: &mut Counters) {
    let rf = Ref::new::<f64, f64>(c);
    let folds = ref_kfold(c.n, c.k);
    let guards: Vec<Vec<u8>> = match &c.guard {
        Some(g) => vec![g.clone()],
        None => vec![vec![0], vec![1], vec![2]],
    };
    for guard in guards.iter() {
        let mut cc = c.clone();
        cc.guard = Some(guard.clone());
        let cj = case_json(&cc);
        let mut c1 = c.clone();
        c1.m = 1;
        with_mut_dataset!(f64, f64, I, c, "iter_fold", viols, |ds| {
            cnt.evals += 1;
            cnt.nontrivial += 1;
            cnt.bump(&format!("iter_fold_runs_unchecked_params_{}", if guard[0] != 0 { "failing_check" } else { "valid" }), 1);
            let before = part_of(&ds.records, &ds.targets);
            let fit_log = Rc::new(RefCell::new(Vec::new()));
            let params = make_guarded(&c1, &FaultSpec::none(), guard, &fit_log);
            let gp = &params[0];
            let res = guarded(|| {
                ds.iter_fold(c.k, |train| {
                    let r: Result<MockModel, MockError> = gp.fit(train);
                    r.map(|m| m.fp).map_err(|e| format!("{:?}", e))
                })
                .map(|(r, valid)| (r, part_of(valid.records(), valid.targets())))
                .collect::<Vec<_>>()
            });
            let after = part_of(&ds.records, &ds.targets);
            let want = guard_errors(guard);
            match res {
                Err(p) => viols.push(Violation::new("iter_fold.panic", format!("iter_fold({}) on {} samples fitting unchecked parameters panicked: {}", c.k, c.n, p), cj.clone())),
                Ok(list) => {
                    if list.len() != c.k {
                        viols.push(Violation::new("iter_fold.wrong_fold_count", format!("iter_fold({}) on {} samples yielded {} pairs", c.k, c.n, list.len()), cj.clone()));
                    }
                    for (i, (r, valid)) in list.iter().enumerate().take(c.k) {
                        match (r, want.first()) {
                            (Err(e), Some(w)) if e == w => cnt.bump("iter_fold_check_errors_surfaced", 1),
                            (Err(e), Some(w)) => {
                                viols.push(Violation::new(
                                    "iter_fold.unchecked_params.wrong_error",
                                    format!("n={} k={} fold {}: fitting parameters whose check fails gave Err({}), expected exactly Err({})", c.n, c.k, i, e, w),
                                    cj.clone(),
                                ));
                                break;
                            }
                            (Ok(_), Some(w)) => {
                                viols.push(Violation::new(
                                    "iter_fold.unchecked_params.error_swallowed",
                                    format!("n={} k={} fold {}: fitting parameters whose check fails gave Ok, expected Err({})", c.n, c.k, i, w),
                                    cj.clone(),
                                ));
                                break;
                            }
                            (Err(e), None) => {
                                viols.push(Violation::new("iter_fold.unchecked_params.unexpected_error", format!("n={} k={} fold {}: valid parameters gave Err({})", c.n, c.k, i, e), cj.clone()));
                                break;
                            }
                            (Ok(fp), None) => {
                                let want_fp = folds[i].0.iter().fold(0u64, |a, &id| a.wrapping_add(fp_row(&rf.rec[id], &rf.tgt[id])));
                                if *fp != want_fp {
                                    viols.push(Violation::new(
                                        "iter_fold.unchecked_params.model_fitted_on_wrong_rows",
                                        format!("n={} k={} fold {}: the model paired with validation block {} was not fitted on that block's complement", c.n, c.k, i, i),
                                        cj.clone(),
                                    ));
                                    break;
                                }
                            }
                        }
                        match rf.decode(valid) {
                            Ok(ids) if ids == folds[i].1 => {}
                            _ => {
                                viols.push(Violation::new("iter_fold.validation_block_wrong", format!("n={} k={} fold {}: validation view is not block {}", c.n, c.k, i, i), cj.clone()));
                                break;
                            }
                        }
                    }
                }
            }
            if after != before {
                viols.push(Violation::new(restored_sig("iter_fold", &before, &after), format!("after iter_fold({}) fitting unchecked parameters the dataset is not in its original order", c.k), cj.clone()));
            }
        });
    }
}

// ------------------------------------------------------------------------------------------------
// k = 0, k = 1, k > n: documented behaviour only
// ------------------------------------------------------------------------------------------------

fn run_degenerate<I: TargetDim>(c: &Case, viols: &mut Vec<Violation>, cnt: &mut Counters) {
    let rf = Ref::new::<f64, f64>(c);
    let class = if c.k == 0 { "k0" } else if c.k == 1 { "k1" } else { "k_gt_n" };
    // fold: nothing documented for these k; the outcome is recorded, no verdict
    {
        let (prec, ptgt) = build_parents::<f64, f64>(c);
        let ds = DatasetBase::new(rec_view(&prec, c).to_owned(), tgt_view::<f64, I>(&ptgt, c).to_owned());
        cnt.evals += 1;
        let r = guarded(|| ds.fold(c.k).len());
        cnt.bump(&format!("degenerate_fold_{}_{}", class, if r.is_ok() { "returned" } else { "panicked" }), 1);
    }
    // iter_fold: panics documented for k = 0 and k > n; k = 1 is a valid call
    with_mut_dataset!(f64, f64, I, c, "iter_fold", viols, |ds| {
        cnt.evals += 1;
        let before = part_of(&ds.records, &ds.targets);
        let r = guarded(|| {
            ds.iter_fold(c.k, |train| part_of(train.records(), train.targets()))
                .map(|(p, v)| (p, part_of(v.records(), v.targets())))
                .collect::<Vec<_>>()
        });
        let after = part_of(&ds.records, &ds.targets);
        match (class, r) {
            ("k1", Ok(list)) => {
                cnt.bump("degenerate_iter_fold_k1_returned", 1);
                let good = list.len() == 1 && list[0].0.rows == 0 && list[0].1 == rf.whole() && after == before;
                if !good {
                    viols.push(Violation::new(
                        "iter_fold.k1.not_whole_dataset_as_single_validation_fold",
                        format!("iter_fold(1) on {} samples: {} pairs, dataset restored = {}", c.n, list.len(), after == before),
                        case_json(c),
                    ));
                }
            }
            ("k1", Err(p)) => viols.push(Violation::new("iter_fold.k1.panic", format!("iter_fold(1) on {} samples panicked: {}", c.n, p), case_json(c))),
            (_, Err(_)) => cnt.bump(&format!("degenerate_iter_fold_{}_documented_panic", class), 1),
            (_, Ok(list)) => viols.push(Violation::new(
                format!("iter_fold.documented_panic_missing.{}", class),
                format!("iter_fold({}) on {} samples returned {} pairs instead of panicking as documented", c.k, c.n, list.len()),
                case_json(c),
            )),
        }
    });
    // cross_validate: nothing documented; outcome recorded, dataset must not be left permuted when it returns
    {
        let mut cc = c.clone();
        cc.m = 1;
        cc.eval = "const".into();
        let c2 = &cc;
        with_mut_dataset!(f64, f64, I, c2, "cross_validate", viols, |ds| {
            cnt.evals += 1;
            let fit_log = Rc::new(RefCell::new(Vec::new()));
            let eval_log: EvalLog = RefCell::new(Vec::new());
            let out = cv_call(ds, c2, &FaultSpec::none(), &[], &fit_log, &eval_log);
            let tag = match out {
                Err(_) => "panicked",
                Ok(Err(_)) => "returned_err",
                Ok(Ok(_)) => "returned_ok",
            };
            cnt.bump(&format!("degenerate_cross_validate_{}_{}", class, tag), 1);
        });
    }
}

// ------------------------------------------------------------------------------------------------
// dispatch, replay, main
// ------------------------------------------------------------------------------------------------

/// Runs the case; when a non-plain storage kind fails while the same logical dataset in fresh
/// standard-layout arrays does not, the failure is additionally reported as `<op>.layout_dependence`.
fn run_case(c: &Case, viols: &mut Vec<Violation>) -> Counters {
    let before = viols.len();
    let cnt = run_case_inner(c, viols);
    if viols.len() > before && family(&c.kind) != "plain" {
        let mut twin = c.clone();
        twin.kind = "owned".into();
        let mut tv = Vec::new();
        run_case_inner(&twin, &mut tv);
        if tv.is_empty() {
            let first = viols[before].what.clone();
            let n_new = viols.len() - before;
            viols.push(Violation::new(
                format!("{}.layout_dependence", c.op),
                format!("{} violation(s) with storage kind {} ({}), none for the same dataset in standard-layout owned arrays; first: {}", n_new, c.kind, family(&c.kind), first),
                case_json(c),
            ));
        }
    }
    cnt
}

fn run_case_inner(c: &Case, viols: &mut Vec<Violation>) -> Counters {
    let mut cnt = Counters::default();
    match (c.op.as_str(), c.elem.as_str(), c.tix) {
        ("fold", "f64/f64", 1) => run_fold::<f64, f64, Ix1>(c, viols, &mut cnt),
        ("fold", "f64/f64", 2) => run_fold::<f64, f64, Ix2>(c, viols, &mut cnt),
        ("fold", "f32/u32", 1) => run_fold::<f32, u32, Ix1>(c, viols, &mut cnt),
        ("fold", "f32/u32", 2) => run_fold::<f32, u32, Ix2>(c, viols, &mut cnt),
        ("iter_fold", "f64/f64", 1) => run_iter_fold::<f64, f64, Ix1>(c, viols, &mut cnt),
        ("iter_fold", "f64/f64", 2) => run_iter_fold::<f64, f64, Ix2>(c, viols, &mut cnt),
        ("iter_fold", "f32/u32", 1) => run_iter_fold::<f32, u32, Ix1>(c, viols, &mut cnt),
        ("iter_fold", "f32/u32", 2) => run_iter_fold::<f32, u32, Ix2>(c, viols, &mut cnt),
        ("cv", "f64/f64", 1) => run_cv::<Ix1>(c, viols, &mut cnt),
        ("cv", "f64/f64", 2) => run_cv::<Ix2>(c, viols, &mut cnt),
        ("cv_single", "f64/f64", 1) => run_cv_single(c, viols, &mut cnt),
        ("iter_fold_guard", "f64/f64", 1) => run_iter_fold_guard::<Ix1>(c, viols, &mut cnt),
        ("iter_fold_guard", "f64/f64", 2) => run_iter_fold_guard::<Ix2>(c, viols, &mut cnt),
        ("degenerate", "f64/f64", 1) => run_degenerate::<Ix1>(c, viols, &mut cnt),
        ("degenerate", "f64/f64", 2) => run_degenerate::<Ix2>(c, viols, &mut cnt),
        _ => panic!("bad case {:?}", c),
    }
    if in_domain(c) {
        if c.n % c.k != 0 {
            cnt.bump("runs_with_training_only_tail", cnt.evals);
        }
        if c.n / c.k >= 2 {
            cnt.bump("runs_with_fold_size_ge_2", cnt.evals);
        }
    }
    cnt
}

fn replay_value(v: &Value) -> Vec<Violation> {
    let c: Case = match serde_json::from_value(v.clone()) {
        Ok(c) => c,
        Err(e) => {
            println!("MACHINERY-ERROR replay case does not parse: {}", e);
            std::process::exit(2);
        }
    };
    let mut out = Vec::new();
    run_case(&c, &mut out);
    out
}

fn main() {
    let ctx = Ctx::new("C01", Level::ModelChecking);
    ctx.maybe_replay(&replay_value);
    let nmax: usize = ctx.pick(12, 30);
    let full_menu_n: usize = ctx.pick(8, 12); // above this n only the "mae" closure is combined with the full fault menu
    ctx.set_rule(&format!(
        "every (n, k, f, target shape, storage kind, element types): n = 1..{nmax}, k = 2..n, f in 1..3 features, targets 1-d and 2-d with 1..3 columns; \
         fold on owned / view / row-strided view (poison rows between) / column-sliced view / column-major owned / reversed-row view of a reversed copy / transposed view of a feature-major array / \
         owned array sliced out of a larger allocation by rows (standard layout, offset start, with sliced weights) and by columns; iter_fold on owned / ArrayViewMut / ArrayViewMut window with guard rows / \
         owned row-slice of a larger allocation (in domain: guard elements of the allocation and the weights must stay untouched) + row-strided, column-major, reversed, transposed, column-sliced storage for the documented panic, \
         + 4, 5, 7, 9 features on standard / windowed / strided storage and a reversed feature axis (reversed target columns, reversed 1-d targets), \
         element types f64/f64 and f32/u32, iterator consumed completely and dropped unconsumed; \
         cross_validate (all target shapes) and cross_validate_single (1-d) on the three contiguous kinds x 1..3 mock models x 4 evaluation closures x the fault menu (+ the owned row-slice kind with 'mae' and 1 / 3 models; + model styles 'mixed' (model 0 overwrites every prediction, the others only the rows their rule fires for, keeping their own model-specific column-major default_target elsewhere) and 'all_sparse' with 'mae' / 'colsum' and the short fault menu; + an empty candidate slice (m = 0); + candidate slices of UNCHECKED hyper-parameter sets (ParamGuard, blanket Fit) with every model position valid / failing with either of two check errors / one double failure, \
         through cross_validate, cross_validate_single and an iter_fold closure) \
         (none; fit error of every model at every fold; eval error for every model at every fold; one double fault; for n > {full_menu_n} the closures other than 'mae' get the short menu: none, fit error of the last model at fold 0, eval error for model 0 at the last fold, the double fault); degenerate k in {{0, 1, n+1, n+2}} for documented behaviour only. \
         size family: n in {{1025}} (quick) / {{1025, 4097}} (thorough) x k in {{2, 3, 7, 1024, n}}, 3 features (17 for two extra groups), 1-d and 2-d x2 targets, fold / iter_fold / cross_validate(_single) (1 model, 'mae', short fault menu) \
         on standard, strided, column-major, transposed, reversed and sliced-owned storage through the same partition oracle (k = n = 4097: 1 feature, 1-d targets, fresh owned arrays only). \
         evaluation = one call of fold / iter_fold / cross_validate(_single) on a freshly built dataset; non-trivial = in-domain call (2 <= k <= n, standard layout where required) whose result is \
         compared with the reference; distinct by construction (nested loops over the parameter grid). iter_fold states = distinct (phase, fold index, visible sample order) observations per trace \
         (initial buffer, training view inside every closure call, every yielded validation view, final buffer); transitions = swap-in + fit + swap-back per closure call (reference buffer stepped in lock-step) + yields."
    ));
    ctx.assume("reference = k-fold on a plain Vec of tagged rows: fold size n div k, validation i = rows [i*fs,(i+1)*fs), training i = the other rows; tail rows are training-only");
    ctx.assume("training parts are compared as multisets (the statement does not fix their order; the observed order is only counted), validation blocks and the restored dataset exactly (bit patterns)");
    ctx.assume("scores: relative 1e-12 against the hand-rolled loop (per-fold value added to a zero accumulator in fold order, divided by k)");
    ctx.assume("mock fit fingerprints the training rows order-independently; the evaluation closure handed to linfa and the reference loop share the plain-Vec evaluation function (the plumbing is under test, not the metric)");
    ctx.assume("with a double fault either injected error is accepted; which fold's error surfaces first is not specified");
    ctx.assume("k = 0, k = 1, k > n and non-standard layouts are outside the statement: iter_fold's documented panics / validity are checked, fold and cross_validate outcomes are only recorded");
    ctx.assume("the predictions an evaluation sees for model j must equal model_j.predict(validation records) as recomputed by the harness, including the rows a sparse model leaves at its own default_target value");
    ctx.assume("unchecked parameters: the candidate models of these runs get Fit from linfa's blanket impl for ParamGuard; a failing check must surface as exactly MockError::Param(that ParamError) (written down absolutely; From<ParamError> and From<linfa::Error> give different variants); with two failing models either error is accepted");
    ctx.assume("layouts: every storage kind is judged by the same layout-free reference (sharper than comparing with the standard-layout run); a failure of a non-plain kind whose standard-layout twin passes is additionally reported as <op>.layout_dependence");
    ctx.assume("trusted base: ndarray (views, slicing, is_standard_layout), serde_json");

    // ---------------- enumerate ----------------
    let mut cases: Vec<Case> = Vec::new();
    let base = |op: &str, n, k, f, tix, tcols, kind: &str, elem: &str| Case {
        op: op.into(), n, k, f, tix, tcols, kind: kind.into(), elem: elem.into(), m: 0, eval: String::new(), fault: None, menu: String::new(), guarded: false, guard: None, styles: String::new(), consume: None,
    };
    for n in 1..=nmax {
        for k in 2..=n {
            for f in 1..=3 {
                for &(tix, tcols) in TSHAPES.iter() {
                    for elem in ["f64/f64", "f32/u32"] {
                        for kind in FOLD_KINDS {
                            cases.push(base("fold", n, k, f, tix, tcols, kind, elem));
                        }
                        for kind in ITER_KINDS {
                            cases.push(base("iter_fold", n, k, f, tix, tcols, kind, elem));
                        }
                    }
                    // sliced owned arrays (+ sliced weights): a modest subset of the cross-validation grid
                    for kind in CV_KINDS_SUBSET {
                        for m in [1usize, 3] {
                            let mut c = base("cv", n, k, f, tix, tcols, kind, "f64/f64");
                            c.m = m;
                            c.eval = "mae".into();
                            c.menu = if n <= full_menu_n { "full".into() } else { "short".into() };
                            cases.push(c.clone());
                            if tix == 1 {
                                c.op = "cv_single".into();
                                cases.push(c);
                            }
                        }
                    }
                    // candidate models that are UNCHECKED hyper-parameter sets (blanket Fit of ParamGuard):
                    // valid / failing check at every model position, for cross validation and iter_fold
                    for kind in ["owned", "viewmut_window"] {
                        for m in 1..=3 {
                            let mut c = base("cv", n, k, f, tix, tcols, kind, "f64/f64");
                            c.m = m;
                            c.eval = "mae".into();
                            c.guarded = true;
                            cases.push(c.clone());
                            if tix == 1 {
                                c.op = "cv_single".into();
                                cases.push(c);
                            }
                        }
                        let mut c = base("iter_fold_guard", n, k, f, tix, tcols, kind, "f64/f64");
                        c.guarded = true;
                        cases.push(c);
                    }
                    // an empty candidate slice
                    {
                        let mut c = base("cv", n, k, f, tix, tcols, "owned", "f64/f64");
                        c.m = 0;
                        c.eval = "mae".into();
                        c.menu = "short".into();
                        cases.push(c.clone());
                        if tix == 1 {
                            c.op = "cv_single".into();
                            cases.push(c);
                        }
                    }
                    // models that do not overwrite every prediction / have their own default_target
                    for kind in CV_KINDS {
                        for m in 1..=3 {
                            for ev in ["mae", "colsum"] {
                                for styles in ["mixed", "all_sparse"] {
                                    if styles == "mixed" && m == 1 {
                                        continue; // identical to "full"
                                    }
                                    let mut c = base("cv", n, k, f, tix, tcols, kind, "f64/f64");
                                    c.m = m;
                                    c.eval = ev.into();
                                    c.menu = "short".into();
                                    c.styles = styles.into();
                                    cases.push(c.clone());
                                    if tix == 1 {
                                        c.op = "cv_single".into();
                                        cases.push(c);
                                    }
                                }
                            }
                        }
                    }
                    for kind in CV_KINDS {
                        for m in 1..=3 {
                            for ev in EVALS {
                                let mut c = base("cv", n, k, f, tix, tcols, kind, "f64/f64");
                                c.m = m;
                                c.eval = ev.into();
                                c.menu = if n <= full_menu_n || ev == "mae" { "full".into() } else { "short".into() };
                                cases.push(c.clone());
                                if tix == 1 {
                                    c.op = "cv_single".into();
                                    cases.push(c);
                                }
                            }
                        }
                    }
                }
            }
        }
        // wider records: 4, 5, 7, 9 features on standard, windowed and reversed-feature-axis storage
        for k in 2..=n {
            for f in [4usize, 5, 7, 9] {
                for &(tix, tcols) in [(1usize, 1usize), (2, 2)].iter() {
                    for kind in ["owned", "view_reversed_cols", "view_strided"] {
                        cases.push(base("fold", n, k, f, tix, tcols, kind, "f64/f64"));
                    }
                    for kind in ["owned", "viewmut_window", "viewmut_reversed_cols"] {
                        cases.push(base("iter_fold", n, k, f, tix, tcols, kind, "f64/f64"));
                    }
                }
            }
        }
        for k in [0, 1, n + 1, n + 2] {
            for f in [1, 2] {
                for &(tix, tcols) in [(1usize, 1usize), (2, 2)].iter() {
                    for kind in ["owned", "viewmut_window"] {
                        cases.push(base("degenerate", n, k, f, tix, tcols, kind, "f64/f64"));
                    }
                }
            }
        }
    }
    // ---------------- size family: the same oracles above the 1024 / 4096 row thresholds ----------------
    let big_ns: Vec<usize> = ctx.pick(vec![1025], vec![1025, 4097]);
    let mut big_groups = 0u64;
    for &n in big_ns.iter() {
        for k in [2usize, 3, 7, 1024, n] {
            // k = n = 4097 returns / shows 4097 x 4096 rows: one feature, 1-d targets, fresh owned arrays only
            let full = !(n == 4097 && k == n);
            let fs: Vec<usize> = if full { vec![3] } else { vec![1] };
            let shapes: Vec<(usize, usize)> = if full { vec![(1, 1), (2, 2)] } else { vec![(1, 1)] };
            let fold_kinds: Vec<&str> = if full { vec!["owned", "view_strided", "owned_forder", "view_transposed", "view_reversed", "owned_sliced"] } else { vec!["owned"] };
            let iter_kinds: Vec<&str> = if full { vec!["owned", "viewmut_window", "owned_sliced"] } else { vec!["owned"] };
            let cv_kinds: Vec<&str> = if full { vec!["owned", "owned_sliced"] } else { vec!["owned"] };
            for &f in fs.iter() {
                for &(tix, tcols) in shapes.iter() {
                    for kind in fold_kinds.iter() {
                        cases.push(base("fold", n, k, f, tix, tcols, kind, "f64/f64"));
                        big_groups += 1;
                    }
                    for kind in iter_kinds.iter() {
                        let mut c = base("iter_fold", n, k, f, tix, tcols, kind, "f64/f64");
                        c.consume = Some(ALL);
                        cases.push(c);
                        big_groups += 1;
                    }
                    for kind in cv_kinds.iter() {
                        let mut c = base("cv", n, k, f, tix, tcols, kind, "f64/f64");
                        c.m = 1;
                        c.eval = "mae".into();
                        c.menu = "short".into();
                        cases.push(c.clone());
                        big_groups += 1;
                        if tix == 1 {
                            c.op = "cv_single".into();
                            cases.push(c);
                            big_groups += 1;
                        }
                    }
                }
            }
        }
        // wide records (17 features) at the smaller size
        if n == 1025 {
            for k in [2usize, 7] {
                cases.push(base("fold", n, k, 17, 2, 2, "owned", "f64/f64"));
                let mut c = base("iter_fold", n, k, 17, 2, 2, "owned", "f64/f64");
                c.consume = Some(ALL);
                cases.push(c);
                big_groups += 2;
            }
        }
    }
    ctx.extra("size_family_case_groups", json!(big_groups));
    ctx.extra("case_groups_enumerated", json!(cases.len()));
    // heavy groups first for load balance
    cases.sort_by_key(|c| std::cmp::Reverse(if c.n > 100 { c.n * c.n * c.k.min(64) } else if c.op.starts_with("cv") { c.n * c.k * c.m * c.k } else { 0 }));

    let done = std::sync::atomic::AtomicU64::new(0);
    let stats: Mutex<BTreeMap<String, u64>> = Mutex::new(BTreeMap::new());
    par_sweep(&ctx, "k-fold sweep", &cases, |c| {
        let mut v = Vec::new();
        let cnt = run_case(c, &mut v);
        ctx.evals(cnt.evals, cnt.nontrivial);
        ctx.add_states(cnt.states, cnt.transitions, cnt.traces);
        ctx.violations(v);
        {
            let mut s = stats.lock().unwrap();
            *s.entry(format!("runs_{}", c.op)).or_insert(0) += cnt.evals;
            *s.entry(format!("runs_layout_{}", family(&c.kind))).or_insert(0) += cnt.evals;
            if c.op.starts_with("cv") {
                *s.entry(format!("runs_cv_model_styles_{}", if c.styles.is_empty() { "full" } else { c.styles.as_str() })).or_insert(0) += cnt.evals;
            }
            if c.n > 100 {
                *s.entry(format!("runs_size_family_n{}", c.n)).or_insert(0) += cnt.evals;
            }
            for (k, n) in cnt.stats {
                *s.entry(k).or_insert(0) += n;
            }
        }
        done.fetch_add(1, std::sync::atomic::Ordering::Relaxed);
        ctx.sample(|| case_json(c));
    });
    let done = done.load(std::sync::atomic::Ordering::Relaxed);
    ctx.extra("case_groups_completed", json!(done));
    if done != cases.len() as u64 {
        ctx.capped(&format!("{} of {} case groups completed", done, cases.len()));
    }
    for (k, n) in stats.into_inner().unwrap() {
        ctx.extra(&k, json!(n));
    }
    ctx.finish(&replay_value);
}
