//! C04 — invalid hyperparameters are rejected with an error before any training.
//! Exhaustive sweep (DESIGN.md §4 C04): for every parameter builder of the workspace a table
//! parameter -> boundary values (with the documented verdict of every entry and the source line
//! it was transcribed from) and the FULL Cartesian product per builder; on every grid point
//! check(), check_ref() and fit / fit_with / transform on the unchecked builder.

mod b_cluster;
mod b_linear;
mod b_misc;
mod b_svm;
mod fw;

use fw::*;
use lvmc_core::{json, par_sweep, Ctx, Level, Value, Violation};
use std::collections::BTreeMap;
use std::sync::Mutex;

fn specs() -> Vec<BuilderSpec> {
    vec![
        b_cluster::kmeans_spec(),
        b_cluster::dbscan_spec(),
        b_cluster::optics_spec(),
        b_cluster::gmm_spec(),
        b_cluster::hierarchical_spec(),
        b_linear::elasticnet_spec(),
        b_linear::multitask_elasticnet_spec(),
        b_linear::logistic_spec(),
        b_linear::multi_logistic_spec(),
        b_linear::tweedie_spec(),
        b_svm::svm_c_bool_spec(),
        b_svm::svm_nu_bool_spec(),
        b_svm::svm_c_pr_spec(),
        b_svm::svm_nu_pr_spec(),
        b_svm::svm_regression_c_spec(),
        b_svm::svm_regression_nu_spec(),
        b_misc::tree_spec(),
        b_misc::gaussian_nb_spec(),
        b_misc::multinomial_nb_spec(),
        b_misc::ftrl_spec(),
        b_misc::pls_regression_spec(),
        b_misc::pls_canonical_spec(),
        b_misc::pls_cca_spec(),
        b_misc::tsne_spec(),
        b_misc::ica_spec(),
        b_misc::diffusion_map_spec(),
        b_misc::gaussian_rp_spec(),
        b_misc::sparse_rp_spec(),
        b_misc::platt_spec(),
        b_misc::count_vectorizer_spec(),
        b_misc::mock_spec(),
    ]
}

fn run_case(case: &Case, specs: &[BuilderSpec]) -> Outcome {
    let mut out = Outcome::new();
    match specs.iter().find(|s| s.name == case.builder) {
        Some(spec) => {
            // every call into linfa is guarded inside judge(); this outer guard only catches a panic of
            // the harness itself or of a builder constructor / setter
            if let Err(p) = lvmc_core::guarded(|| (spec.run)(case, spec, &mut out)) {
                out.viols.push(Violation::new(format!("{}.builder_construction.panic", spec.name), format!("constructing the builder / running the point panicked outside check and fit: {}", p), serde_json::to_value(case).unwrap()));
            }
        }
        None => out.viols.push(Violation::new("machinery.unknown_builder", format!("no builder {}", case.builder), serde_json::to_value(case).unwrap())),
    }
    out
}

fn replay_value(v: &Value) -> Vec<Violation> {
    let c: Case = match serde_json::from_value(v.clone()) {
        Ok(c) => c,
        Err(e) => {
            println!("MACHINERY-ERROR replay case does not parse: {}", e);
            std::process::exit(2);
        }
    };
    let at = v.get("at").cloned();
    let mut viols = run_case(&c, &specs()).viols;
    if let Some(at) = at {
        viols.retain(|x| x.case.get("at") == Some(&at));
    }
    viols
}

#[derive(Default, Clone)]
struct PerBuilder {
    points: u64,
    valid: u64,
    invalid: u64,
    multi_invalid: u64,
    consistency_only: u64,
    accepted: u64,
    rejected: u64,
    ops_run: u64,
    ops_skipped: u64,
    trained: u64,
    fit_errors_on_valid: u64,
    panics_on_valid_both_forms: u64,
    hist_states: u64,
    hist_transitions: u64,
    hist_traces: u64,
    hist_fit_calls: u64,
    hist_not_comparable: u64,
}

fn main() {
    let ctx = Ctx::new("C04", Level::Exploration);
    ctx.maybe_replay(&replay_value);
    let specs = specs();
    ctx.set_rule(
        "one evaluation = one grid point of one parameter builder (check(), check_ref(), and every fit / fit_with / transform form of the builder, \
         each on a fresh unchecked builder, on a builder that went through check_ref, and on the checked parameters); the grid of a builder is the FULL \
         Cartesian product of its table parameter -> boundary values (far below, just below, -0.0, +0.0 / at bound, just inside, inside, far inside, just below upper, at upper, \
         just above, far above - the entries that exist for the parameter), run for f64 and f32 where the builder is generic; quick = thorough. \
         states / transitions count the history dimension: per grid point and history the builder states (configured at A, checked / fitted / cloned, moved to B) and the actions between them. \
         non-trivial = the point has a documented verdict (every value documented valid, or at least one documented invalid); points whose only \
         questionable values are documented contradictorily are consistency-only and counted as indeterminate. distinct by construction (product of distinct table entries).",
    );
    ctx.assume("documented predicate = transcription of the setter rustdoc / range table / error text cited next to each table entry (see coverage.tables); non-finite values are outside the property");
    ctx.assume("wording 'should be positive' / 'negative X' / 'should not be negative' does not settle +0.0 and -0.0 in this code base (FTRL beta is documented 'must be positive' and defaults to 0.0): such zero points are consistency-only; explicit intervals '[0, inf)', '(0, inf)', '0..=1', 'greater than 0', 'cannot be 0' are taken literally, with -0.0 == 0");
    ctx.assume("errors are compared through their Debug strings; the expected error of an unchecked fit is E::from(parameter error) of the operation's own error type");
    ctx.assume("'unchanged by check_ref' = Debug string of the builder before and after (builders without Debug: PLS, random projection - covered only through fit-after-check_ref equality); the count vectoriser's cached compiled regex (a RefCell filled by check_ref) is not a parameter and is masked");
    ctx.assume("fingerprint of a fitted model = its Debug string, or predictions / sorted vocabulary / canonical partition where the model contains a HashMap (naive Bayes, count vectoriser, hierarchical) ; all fits use fixed seeds");
    ctx.assume("history dimension (explicit-state exploration of the builder value): for every grid point B the builder is ALSO reached through four histories - configured at the valid reference point A then check_ref then the setters of B on the same value; the same with a clone taken after the check; a fit on the unchecked builder at A instead of the check; configured at the invalid reference point A' and rejected first - and check_ref(), check() and the unchecked training calls at B must equal those of the freshly built builder (same error Debug string, same model fingerprint). Constructor-only arguments (k-means / GMM n_clusters, DBSCAN / OPTICS min_points, PLS n_components, FastICA ncomponents) stay those of B; a history whose setter chain cannot reach B's parameter values (setters that cannot unset an Option) is counted as not comparable; builders without Clone (PLS, random projection) have no clone history; the clone / fit / rejected histories run only the first training form");
    ctx.assume("check() leaves the parameters unchanged: the Debug string (accessors for random projection) of the value RETURNED by check() must equal that of the value behind check_ref() of the same builder and must be contained in the builder's own Debug string (sig *.check_vs_check_ref.checked_params_differ / *.check_ref.checked_params_differ_from_builder); the three PLS builders expose neither Debug nor accessors on their checked parameters and are covered only through the equality of the fitted models");
    ctx.assume("enum-valued / structured settings without a documented range are free axes of the grids (k-means init incl. Precomputed with rows == and != n_clusters, GMM init method, DBSCAN / OPTICS neighbour index, SVM kernel, PLS algorithm and scale, tree split quality / depth / leaf weight, logistic initial parameters, Tweedie link, t-SNE preliminary iterations): every value is documented valid; k-means Precomputed with rows != n_clusters passes both checks and then hits the assert of KMeansInit::run in BOTH forms (counted under valid_points_where_both_forms_panic, not a violation of this property)");
    ctx.assume("builder-order histories: `valid_then_invalid_then_moved` (A, then the invalid A', then B on the same value without any check: last write wins) and, for every params type with rebuilding / type-changing / whole-field setters - k-means init_method; GMM with_rng, init_method, covariance_type; DBSCAN / OPTICS dist_fn, nn_algo; hierarchical with_method; SVM with_kernel_params, with_platt_params; FTRL rng; random projection with_rng; count vectoriser tokenizer - the orders `values_then_<setter>` (every value setter of B BEFORE the rebuilding setter, which is called with the value the point already has), `<setter>_then_values` (AFTER it) and `values_then_all_rebuilding_setters`: the builder's Debug snapshot, check_ref(), check() and the first training form must equal those of the builder built in the harness' default order (sig *.history.<name>.parameters_differ_from_fresh / *_verdict_differs_from_fresh / *_result_differs_from_fresh)");
    ctx.assume("valid extremes: every float list carries the largest finite value of the float type (class max_finite), every count list u32::MAX (class huge), the logistic initial parameters carry all-MAX, MAX-and-1, all -MAX (sums overflow), MIN_POSITIVE, subnormal and -0.0 arrays: documented valid, check() / check_ref() must accept them; no training call with the huge ones (skip_ops)");
    ctx.assume("'returns exactly that error' is structural: on an invalid point every training / transform form must return (Debug representation) the parameter-error VALUE of check() wrapped in the documented variant of the form's own error type, and the expectation is built by naming that variant, never through the crate's From conversion: k-means fit -> KMeansError::InvalidParams(e), k-means fit_with -> IncrKMeansError::InvalidParams(e); for every other form the parameter error type IS the form's error type (GmmError, OpticsError, DbscanParamsError through TransformGuard, ElasticNetError, logistic Error, LinearError, SvmError incl. SvmError::Platt(e) produced by check itself, linfa::Error for the tree, NaiveBayesError, FtrlError, PlsError, TSneError, FastIcaError, ReductionError, PlattError, HierarchicalError, PreprocessingError) and the value must be returned unchanged");
    ctx.assume("dataset-form entry points (t-SNE transform(DatasetBase) - a hand-written forwarder on the unchecked builder -, DBSCAN transform(DatasetBase), hierarchical transform(DatasetBase<Kernel>)) are run on datasets that carry targets, sample weights and feature names, and the WHOLE result of the unchecked form must equal the checked form: records, targets, weights, feature names, target names; the k-means and tree fits also run on datasets with weights and names");
    ctx.assume("a documented-invalid point that check() accepts is reported and NOT trained on; values flagged skip_ops (solver can only stop at its iteration cap) get the verdict oracles but no training call");

    let mut cases: Vec<Case> = Vec::new();
    let mut tables = serde_json::Map::new();
    for s in &specs {
        let cs = enumerate(s);
        let mut t = serde_json::Map::new();
        for p in &s.params {
            t.insert(
                p.name.to_string(),
                json!({"source": p.src, "values": p.vals.iter().map(|(sym, class, doc, skip)| json!({"class": class, "value": format!("{:?}", sym), "documented": format!("{:?}", doc), "skip_ops": skip})).collect::<Vec<_>>()}),
            );
        }
        tables.insert(s.name.to_string(), json!({"floats": s.floats, "grid_points": cs.len(), "parameters": t}));
        cases.extend(cs);
    }
    ctx.extra("tables", Value::Object(tables));
    ctx.extra("builders", json!(specs.len()));
    ctx.extra("grid_points_enumerated", json!(cases.len()));

    let per: Mutex<BTreeMap<String, PerBuilder>> = Mutex::new(BTreeMap::new());
    let notes: Mutex<BTreeMap<String, u64>> = Mutex::new(BTreeMap::new());
    let done = std::sync::atomic::AtomicU64::new(0);
    // watchdog: a training call that never returns (a guard let a pathological value through) must
    // not hang the driver: report the grid point and stop with a machinery error (never a verdict)
    let in_flight: std::sync::Arc<Mutex<BTreeMap<u64, (std::time::Instant, String)>>> = std::sync::Arc::new(Mutex::new(BTreeMap::new()));
    let ticket = std::sync::atomic::AtomicU64::new(0);
    {
        let reg = in_flight.clone();
        std::thread::spawn(move || loop {
            std::thread::sleep(std::time::Duration::from_secs(2));
            let g = reg.lock().unwrap();
            for (_, (t0, what)) in g.iter() {
                if t0.elapsed().as_secs() > 120 {
                    println!("MACHINERY-ERROR grid point did not finish within 120 s (non-terminating training call): {}", what);
                    std::process::exit(2);
                }
            }
        });
    }
    if let Ok(only) = std::env::var("C04_ONLY") {
        // development aid (never set by ./check): restrict the sweep to one builder
        cases.retain(|c| c.builder == only);
    }
    if std::env::var("C04_PROBE").is_ok() {
        // development aid: run every grid point in its own thread with a 5 s limit and list the ones that hang
        for c in &cases {
            let (tx, rx) = std::sync::mpsc::channel();
            let c2 = c.clone();
            std::thread::spawn(move || {
                let sp = crate::specs();
                let t0 = std::time::Instant::now();
                let _ = run_case(&c2, &sp);
                let _ = tx.send(t0.elapsed().as_secs_f64());
            });
            match rx.recv_timeout(std::time::Duration::from_secs(5)) {
                Ok(t) if t > 0.5 => println!("SLOW {:.1}s {}", t, c.vals.iter().map(|p| format!("{}={}", p.name, p.class)).collect::<Vec<_>>().join(" ")),
                Ok(_) => {}
                Err(_) => println!("HANG {} {}", c.float, c.vals.iter().map(|p| format!("{}={}", p.name, p.class)).collect::<Vec<_>>().join(" ")),
            }
        }
        std::process::exit(0);
    }
    par_sweep(&ctx, "hyperparameter grids", &cases, |c| {
        let tk = ticket.fetch_add(1, std::sync::atomic::Ordering::Relaxed);
        in_flight.lock().unwrap().insert(tk, (std::time::Instant::now(), serde_json::to_string(c).unwrap()));
        let o = run_case(c, &specs);
        in_flight.lock().unwrap().remove(&tk);
        ctx.eval(o.expected.is_some());
        if o.expected.is_none() {
            ctx.indeterminate();
        }
        {
            let mut g = per.lock().unwrap();
            let e = g.entry(c.builder.clone()).or_default();
            e.points += 1;
            match o.expected {
                Some(true) => e.valid += 1,
                Some(false) => {
                    e.invalid += 1;
                    if o.n_invalid_params >= 2 {
                        e.multi_invalid += 1;
                    }
                }
                None => e.consistency_only += 1,
            }
            match o.observed_ok {
                Some(true) => e.accepted += 1,
                Some(false) => e.rejected += 1,
                None => {}
            }
            e.ops_run += o.ops_run;
            e.ops_skipped += o.ops_skipped;
            e.trained += o.trained;
            e.fit_errors_on_valid += o.fit_errors_on_valid;
            e.panics_on_valid_both_forms += o.panics_on_valid_both_forms;
            e.hist_states += o.hist_states;
            e.hist_transitions += o.hist_transitions;
            e.hist_traces += o.hist_traces;
            e.hist_fit_calls += o.hist_fit_calls;
            e.hist_not_comparable += o.hist_not_comparable;
        }
        if !o.notes.is_empty() {
            let mut g = notes.lock().unwrap();
            for n in &o.notes {
                *g.entry(n.clone()).or_insert(0) += 1;
            }
        }
        let nviol = o.viols.len();
        ctx.violations(o.viols);
        done.fetch_add(1, std::sync::atomic::Ordering::Relaxed);
        ctx.sample(|| json!({"builder": c.builder, "float": c.float, "point": c.vals.iter().map(|p| format!("{}={:?}[{}:{:?}]", p.name, p.val, p.class, p.doc)).collect::<Vec<_>>(), "documented_verdict": format!("{:?}", o.expected), "check_ok": o.observed_ok, "violations": nviol}));
    });
    let done = done.load(std::sync::atomic::Ordering::Relaxed);
    ctx.extra("grid_points_completed", json!(done));
    if done != cases.len() as u64 {
        ctx.capped(&format!("only {} of {} grid points were run", done, cases.len()));
    }
    let per = per.into_inner().unwrap();
    let mut tot = PerBuilder::default();
    let mut pb = serde_json::Map::new();
    for (k, v) in &per {
        pb.insert(
            k.clone(),
            json!({"points": v.points, "documented_valid": v.valid, "documented_invalid": v.invalid, "two_or_more_invalid_params": v.multi_invalid, "consistency_only": v.consistency_only,
                   "check_accepted": v.accepted, "check_rejected": v.rejected, "fit_calls_compared": v.ops_run, "fit_calls_skipped": v.ops_skipped, "models_trained_on_valid": v.trained,
                   "data_dependent_fit_errors_on_valid": v.fit_errors_on_valid, "valid_points_where_both_forms_panic": v.panics_on_valid_both_forms,
                   "history_dimension": v.hist_traces > 0, "history_states": v.hist_states, "history_transitions": v.hist_transitions, "histories_compared_with_fresh_builder": v.hist_traces,
                   "history_fit_calls_compared": v.hist_fit_calls, "histories_not_comparable": v.hist_not_comparable}),
        );
        tot.valid += v.valid;
        tot.invalid += v.invalid;
        tot.multi_invalid += v.multi_invalid;
        tot.consistency_only += v.consistency_only;
        tot.ops_run += v.ops_run;
        tot.trained += v.trained;
        tot.ops_skipped += v.ops_skipped;
        tot.panics_on_valid_both_forms += v.panics_on_valid_both_forms;
        tot.hist_states += v.hist_states;
        tot.hist_transitions += v.hist_transitions;
        tot.hist_traces += v.hist_traces;
        tot.hist_fit_calls += v.hist_fit_calls;
        tot.hist_not_comparable += v.hist_not_comparable;
    }
    ctx.extra("per_builder", Value::Object(pb));
    ctx.extra("documented_valid_points", json!(tot.valid));
    ctx.extra("documented_invalid_points", json!(tot.invalid));
    ctx.extra("points_with_two_or_more_invalid_params", json!(tot.multi_invalid));
    ctx.extra("consistency_only_points", json!(tot.consistency_only));
    ctx.extra("fit_calls_compared", json!(tot.ops_run));
    ctx.extra("fit_calls_skipped", json!(tot.ops_skipped));
    ctx.extra("models_trained_on_valid_points", json!(tot.trained));
    ctx.extra("valid_points_where_both_forms_panic", json!(tot.panics_on_valid_both_forms));
    ctx.add_states(tot.hist_states, tot.hist_transitions, tot.hist_traces);
    ctx.extra("history_kinds", json!(HISTORIES));
    ctx.extra("builders_with_history_dimension", json!(per.iter().filter(|(_, v)| v.hist_traces > 0).map(|(k, _)| k.clone()).collect::<Vec<_>>()));
    ctx.extra("builders_without_history_dimension", json!(per.iter().filter(|(_, v)| v.hist_traces == 0).map(|(k, _)| k.clone()).collect::<Vec<_>>()));
    ctx.extra("history_fit_calls_compared", json!(tot.hist_fit_calls));
    ctx.extra("histories_not_comparable", json!(tot.hist_not_comparable));
    let notes = notes.into_inner().unwrap();
    ctx.extra("consistency_only_and_observations", json!(notes.iter().map(|(k, v)| format!("{} (x{})", k, v)).collect::<Vec<_>>()));
    ctx.finish(&replay_value);
}
