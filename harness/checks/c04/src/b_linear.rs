//! Builders of linfa-elasticnet (single / multi task), linfa-logistic (binary / multinomial) and
//! the Tweedie GLM of linfa-linear.

use crate::fw::*;
use linfa::traits::Fit;
use linfa::{Dataset, Float};
use linfa_elasticnet::{ElasticNetError, ElasticNetParams, MultiTaskElasticNetParams};
use linfa_linear::{LinearError, TweedieRegressor};
use linfa_logistic::{LogisticRegression, MultiLogisticRegression};
use ndarray::{Array1, Array2};

fn dbg<T: std::fmt::Debug>(x: &T) -> String {
    format!("{:?}", x)
}

const X: [[f64; 2]; 8] = [[0.0, 1.0], [1.0, 0.5], [2.0, 2.0], [3.0, 0.0], [4.0, 3.5], [5.0, 1.0], [6.0, 4.0], [7.0, 2.5]];
const Y: [f64; 8] = [1.0, 2.25, 5.0, 4.5, 9.0, 7.5, 12.5, 11.0];

fn xmat<F: Float>() -> Array2<F> {
    Array2::from_shape_fn((8, 2), |(i, j)| F::cast(X[i][j]))
}
fn yvec<F: Float>() -> Array1<F> {
    Array1::from_shape_fn(8, |i| F::cast(Y[i]))
}

// ------------------------------------------------------------------------------------------
// elastic net
// ------------------------------------------------------------------------------------------
fn enet_params() -> Vec<Param> {
    vec![
        ge0("penalty", "linfa-elasticnet/src/hyperparams.rs:79 range table `[0, inf)`; :89 \"InvalidPenalty if the penalty is negative\"", 0.5, 1e10),
        unit_closed("l1_ratio", "linfa-elasticnet/src/hyperparams.rs:80 range table `[0.0, 1.0]`; :202 \"must be between `0.0` and `1.0`\""),
        // the range table (hyperparams.rs:82) says `(0, inf)`, the # Errors text (hyperparams.rs:94) says
        // "InvalidTolerance if the tolerance is negative": the two sources disagree about 0
        loose0("tolerance", "linfa-elasticnet/src/hyperparams.rs:82 range table `(0, inf)` vs :94 \"InvalidTolerance if the tolerance is negative\"", 1e-4, 1e10),
        Param {
            name: "max_iterations",
            src: "linfa-elasticnet/src/hyperparams.rs:83 range table `[1, inf)`",
            vals: vec![(Sym::U(0), "zero", I, false), (Sym::U(1), "at_lower", V, false), (Sym::U(1000), "far_inside", V, false)],
        },
        free("with_intercept", "linfa-elasticnet/src/hyperparams.rs:81 `false`, `true`", vec![(Sym::B(true), "true"), (Sym::B(false), "false")]),
    ]
}

fn enet_err_param(e: &str) -> Option<&'static str> {
    if e.contains("InvalidPenalty") {
        Some("penalty")
    } else if e.contains("InvalidL1Ratio") {
        Some("l1_ratio")
    } else if e.contains("InvalidTolerance") {
        Some("tolerance")
    } else {
        None
    }
}

pub fn elasticnet_spec() -> BuilderSpec {
    BuilderSpec {
        name: "elasticnet",
        floats: &["f64", "f32"],
        params: enet_params(),
        relation: no_relation,
        err_param: enet_err_param,
        run: |c, s, o| if c.float == "f32" { enet::<f32>(c, s, o) } else { enet::<f64>(c, s, o) },
    }
}

pub fn multitask_elasticnet_spec() -> BuilderSpec {
    BuilderSpec {
        name: "multitask_elasticnet",
        floats: &["f64", "f32"],
        params: enet_params(),
        relation: no_relation,
        err_param: enet_err_param,
        run: |c, s, o| if c.float == "f32" { mtenet::<f32>(c, s, o) } else { mtenet::<f64>(c, s, o) },
    }
}

fn enet<F: Float>(case: &Case, spec: &BuilderSpec, out: &mut Outcome) {
    let ds = Dataset::new(xmat::<F>(), yvec::<F>());
    let base = || ElasticNetParams::<F>::new();
    let set = setter(&base, |mut p, c| { if c.moved(&["penalty"]) { p = p.penalty(F::cast(c.f("penalty"))); } if c.moved(&["l1_ratio"]) { p = p.l1_ratio(F::cast(c.f("l1_ratio"))); } if c.moved(&["tolerance"]) { p = p.tolerance(F::cast(c.f("tolerance"))); } if c.moved(&["max_iterations"]) { p = p.max_iterations(c.u("max_iterations") as u32); } if c.moved(&["with_intercept"]) { p = p.with_intercept(c.b("with_intercept")); } p });
    let make = || set(base(), case);
    let ops = vec![op(
        &make,
        "fit",
        |p| p.fit(&ds).map(|m| dbg(&m)).map_err(|e: ElasticNetError| dbg(&e)),
        |p| p.fit(&ds).map(|m| dbg(&m)).map_err(|e: ElasticNetError| dbg(&e)),
        |e| dbg(&e),
    )];
    judge(case, spec, &base, &set, Some(&|p| p.clone()), &[], &|p| dbg(p), &|c| dbg(c), ops, out);
}

fn mtenet<F: Float>(case: &Case, spec: &BuilderSpec, out: &mut Outcome) {
    let y2 = Array2::from_shape_fn((8, 2), |(i, j)| if j == 0 { F::cast(Y[i]) } else { F::cast(10.0 - Y[i] * 0.5) });
    let ds = Dataset::new(xmat::<F>(), y2);
    let base = || MultiTaskElasticNetParams::<F>::new();
    let set = setter(&base, |mut p, c| { if c.moved(&["penalty"]) { p = p.penalty(F::cast(c.f("penalty"))); } if c.moved(&["l1_ratio"]) { p = p.l1_ratio(F::cast(c.f("l1_ratio"))); } if c.moved(&["tolerance"]) { p = p.tolerance(F::cast(c.f("tolerance"))); } if c.moved(&["max_iterations"]) { p = p.max_iterations(c.u("max_iterations") as u32); } if c.moved(&["with_intercept"]) { p = p.with_intercept(c.b("with_intercept")); } p });
    let make = || set(base(), case);
    let ops = vec![op(
        &make,
        "fit",
        |p| p.fit(&ds).map(|m| dbg(&m)).map_err(|e: ElasticNetError| dbg(&e)),
        |p| p.fit(&ds).map(|m| dbg(&m)).map_err(|e: ElasticNetError| dbg(&e)),
        |e| dbg(&e),
    )];
    judge(case, spec, &base, &set, Some(&|p| p.clone()), &[], &|p| dbg(p), &|c| dbg(c), ops, out);
}

// ------------------------------------------------------------------------------------------
// logistic regression
// ------------------------------------------------------------------------------------------
fn logistic_params() -> Vec<Param> {
    vec![
        // "alpha must be a positive, finite number" (error.rs:25); the type-level rustdoc (lib.rs:61-62)
        // says "Setting `alpha` close to zero removes regularization": zero is consistency-only
        loose0("alpha", "linfa-logistic/src/error.rs:25 \"alpha must be a positive, finite number\"; lib.rs:61 \"Setting `alpha` close to zero removes regularization\"", 1.0, 1e10),
        loose0("gradient_tolerance", "linfa-logistic/src/error.rs:23 \"gradient_tolerance must be a positive, finite number\"", 1e-4, 1e10),
        free("max_iterations", "linfa-logistic/src/hyperparams.rs:86 no documented range", vec![(Sym::U(0), "zero"), (Sym::U(1), "one"), (Sym::U(100), "default")]),
        free("with_intercept", "linfa-logistic/src/hyperparams.rs:80 bool", vec![(Sym::B(true), "true"), (Sym::B(false), "false")]),
        // finite initial parameters (non-finite ones are outside the property); shape errors are raised by fit
        // array-valued parameter: every FINITE entry is in range whatever its magnitude (guard hyperparams.rs:47
        // "any entry not finite"); valid extremes: all entries MAX (their sum overflows), MAX with a small
        // entry, all entries -MAX, MIN_POSITIVE, subnormal, -0.0. No training call with the huge ones.
        Param {
            name: "initial_params",
            src: "linfa-logistic/src/hyperparams.rs:100 optional start point; error.rs:27 \"Initial parameters must be finite\"; constructor-time choice of the point",
            vals: vec![
                (Sym::S("unset"), "unset", V, false),
                (Sym::S("finite"), "finite", V, false),
                (Sym::S("all_max"), "all_entries_max_finite", V, true),
                (Sym::S("max_and_one"), "max_finite_and_one", V, true),
                (Sym::S("all_neg_max"), "all_entries_neg_max_finite", V, true),
                (Sym::S("min_positive"), "min_positive", V, false),
                (Sym::S("subnormal"), "subnormal", V, false),
                (Sym::S("neg_zero"), "neg_zero", V, false),
            ],
        },
    ]
}

fn logistic_err_param(e: &str) -> Option<&'static str> {
    if e.contains("InvalidAlpha") {
        Some("alpha")
    } else if e.contains("InvalidGradientTolerance") {
        Some("gradient_tolerance")
    } else if e.contains("InvalidInitialParameters") {
        Some("initial_params")
    } else {
        None
    }
}

pub fn logistic_spec() -> BuilderSpec {
    BuilderSpec {
        name: "logistic",
        floats: &["f64", "f32"],
        params: logistic_params(),
        relation: no_relation,
        err_param: logistic_err_param,
        run: |c, s, o| if c.float == "f32" { logistic_f32(c, s, o) } else { logistic_f64(c, s, o) },
    }
}

pub fn multi_logistic_spec() -> BuilderSpec {
    BuilderSpec {
        name: "multi_logistic",
        floats: &["f64", "f32"],
        params: logistic_params(),
        relation: no_relation,
        err_param: logistic_err_param,
        run: |c, s, o| if c.float == "f32" { multi_logistic_f32(c, s, o) } else { multi_logistic_f64(c, s, o) },
    }
}

macro_rules! logistic_impl {
    ($name:ident, $f:ty, $builder:ident, $labels:expr, $init:expr) => {
        fn $name(case: &Case, spec: &BuilderSpec, out: &mut Outcome) {
            let labels: [usize; 8] = $labels;
            let ds = Dataset::new(xmat::<$f>(), Array1::from_shape_fn(8, |i| labels[i]));
            let base = || {
                let p = $builder::<$f>::default();
                if case.s("initial_params") != "unset" {
                    let tag = case.s("initial_params").to_string();
                    let mut arr = ($init)(case.b("with_intercept"));
                    let n = arr.len();
                    for (i, v) in arr.iter_mut().enumerate() {
                        *v = match tag.as_str() {
                            "all_max" => <$f>::MAX,
                            "max_and_one" => if i + 1 == n { 1.0 } else { <$f>::MAX },
                            "all_neg_max" => -<$f>::MAX,
                            "min_positive" => <$f>::MIN_POSITIVE,
                            "subnormal" => <$f>::from_bits(1),
                            "neg_zero" => -0.0,
                            _ => 0.125,
                        };
                    }
                    p.initial_params(arr)
                } else {
                    p
                }
            };
            let set = setter(&base, |mut p, c| { if c.moved(&["alpha"]) { p = p.alpha(c.f("alpha") as $f); } if c.moved(&["gradient_tolerance"]) { p = p.gradient_tolerance(c.f("gradient_tolerance") as $f); } if c.moved(&["max_iterations"]) { p = p.max_iterations(c.u("max_iterations")); } if c.moved(&["with_intercept"]) { p = p.with_intercept(c.b("with_intercept")); } p });
            let make = || set(base(), case);
            let ops = vec![op(
                &make,
                "fit",
                |p| p.fit(&ds).map(|m| dbg(&m)).map_err(|e: linfa_logistic::error::Error| dbg(&e)),
                |p| p.fit(&ds).map(|m| dbg(&m)).map_err(|e: linfa_logistic::error::Error| dbg(&e)),
                |e| dbg(&e),
            )];
            judge(case, spec, &base, &set, Some(&|p| p.clone()), &[], &|p| dbg(p), &|c| dbg(c), ops, out);
        }
    };
}
logistic_impl!(logistic_f64, f64, LogisticRegression, [0, 0, 1, 0, 1, 0, 1, 1], |i: bool| Array1::<f64>::from_elem(2 + i as usize, 0.125));
logistic_impl!(logistic_f32, f32, LogisticRegression, [0, 0, 1, 0, 1, 0, 1, 1], |i: bool| Array1::<f32>::from_elem(2 + i as usize, 0.125));
logistic_impl!(multi_logistic_f64, f64, MultiLogisticRegression, [0, 0, 1, 0, 2, 1, 2, 2], |i: bool| Array2::<f64>::from_elem((2 + i as usize, 3), 0.125));
logistic_impl!(multi_logistic_f32, f32, MultiLogisticRegression, [0, 0, 1, 0, 2, 1, 2, 2], |i: bool| Array2::<f32>::from_elem((2 + i as usize, 3), 0.125));

// ------------------------------------------------------------------------------------------
// Tweedie GLM
// ------------------------------------------------------------------------------------------
pub fn tweedie_spec() -> BuilderSpec {
    BuilderSpec {
        name: "tweedie",
        floats: &["f64", "f32"],
        params: vec![
            // setter rustdoc (glm/hyperparams.rs:81): "`alpha` set to 0 is equivalent to unpenalized GLM" -> 0 is
            // explicitly allowed; error text (error.rs:20) "penalty should be positive"
            ge0("alpha", "linfa-linear/src/glm/hyperparams.rs:81 \"`alpha` set to 0 is equivalent to unpenalized GLM\"; error.rs:20 \"penalty should be positive\"", 1.0, 1e10),
            Param {
                name: "power",
                src: "linfa-linear/src/error.rs:22 \"tweedie distribution power should not be in (0, 1)\"; glm/hyperparams.rs:101-102 power = 0 Normal, power >= 1 Poisson/Gamma/Inverse Gaussian",
                vals: vec![
                    (Sym::L(-1.0), "below_lower", V, false),
                    (Sym::NegTiny, "just_below_lower", V, false),
                    (Sym::NegZero, "neg_zero", V, false),
                    (Sym::L(0.0), "at_lower_excluded_bound", V, false),
                    (Sym::Tiny, "just_inside_forbidden", I, false),
                    (Sym::L(0.5), "inside_forbidden", I, false),
                    (Sym::OneBelow, "just_below_upper_forbidden", I, false),
                    (Sym::L(1.0), "at_upper_excluded_bound", V, false),
                    (Sym::OneAbove, "just_above", V, false),
                    (Sym::L(2.0), "above", V, false),
                    (Sym::L(3.0), "far_above", V, false),
                ],
            },
            free("max_iter", "linfa-linear/src/glm/hyperparams.rs:108 no documented range", vec![(Sym::U(0), "zero"), (Sym::U(100), "default")]),
            free("tol", "linfa-linear/src/glm/hyperparams.rs:114 no documented range", vec![(Sym::L(1e-4), "default"), (Sym::L(1e-2), "loose")]),
            free("fit_intercept", "linfa-linear/src/glm/hyperparams.rs:87 bool", vec![(Sym::B(true), "true"), (Sym::B(false), "false")]),
            free("link", "linfa-linear/src/glm/hyperparams.rs:99 optional link function (constructor-time choice of the point: the setter cannot unset it)", vec![(Sym::S("unset"), "unset"), (Sym::S("log"), "log")]),
        ],
        relation: no_relation,
        err_param: |e| {
            if e.contains("InvalidPenalty") {
                Some("alpha")
            } else if e.contains("InvalidTweediePower") {
                Some("power")
            } else {
                None
            }
        },
        run: |c, s, o| if c.float == "f32" { tweedie_f32(c, s, o) } else { tweedie_f64(c, s, o) },
    }
}

macro_rules! tweedie_impl {
    ($name:ident, $f:ty) => {
        fn $name(case: &Case, spec: &BuilderSpec, out: &mut Outcome) {
            // features scaled to [0, 0.7]: with the log link and no intercept the L-BFGS line search of the
            // GLM does not terminate on larger features (a training problem outside this property)
            let ds = Dataset::new(xmat::<$f>().mapv(|v| v * 0.1), yvec::<$f>());
            let base = || {
                let p = TweedieRegressor::<$f>::params();
                if case.s("link") == "log" {
                    p.link(linfa_linear::Link::Log)
                } else {
                    p
                }
            };
            let set = setter(&base, |mut p, c| { if c.moved(&["alpha"]) { p = p.alpha(c.f("alpha") as $f); } if c.moved(&["power"]) { p = p.power(c.f("power") as $f); } if c.moved(&["max_iter"]) { p = p.max_iter(c.u("max_iter") as usize); } if c.moved(&["tol"]) { p = p.tol(c.f("tol") as $f); } if c.moved(&["fit_intercept"]) { p = p.fit_intercept(c.b("fit_intercept")); } p });
            let make = || set(base(), case);
            let ops = vec![op(
                &make,
                "fit",
                |p| p.fit(&ds).map(|m| dbg(&m)).map_err(|e: LinearError<$f>| dbg(&e)),
                |p| p.fit(&ds).map(|m| dbg(&m)).map_err(|e: LinearError<$f>| dbg(&e)),
                |e| dbg(&e),
            )];
            judge(case, spec, &base, &set, Some(&|p| p.clone()), &[], &|p| dbg(p), &|c| dbg(c), ops, out);
        }
    };
}
tweedie_impl!(tweedie_f64, f64);
tweedie_impl!(tweedie_f32, f32);
