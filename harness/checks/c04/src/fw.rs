//! Framework of the C04 check: grid points (`Case`), boundary-value tables with the documented
//! verdict of every entry, and the generic judge that runs check / check_ref / the unchecked
//! operations of one builder on one grid point and compares them with the documented predicate.

use linfa::ParamGuard;
use lvmc_core::{guarded, json, Value, Violation};
use serde::{Deserialize, Serialize};

/// Documented verdict of one value of one parameter (or of a whole point).
#[derive(Clone, Copy, Debug, PartialEq, Eq, Serialize, Deserialize)]
pub enum Doc {
    /// the documentation (setter rustdoc / range table / error text) puts the value inside the range
    Valid,
    /// the documentation puts the value outside the range
    Invalid,
    /// the sources contradict each other (or an existing test pins the opposite of the text):
    /// consistency-only, no verdict demanded (DESIGN.md 3.6)
    Unspec,
}
pub use Doc::{Invalid as I, Unspec as U, Valid as V};

#[derive(Clone, Debug, PartialEq, Serialize, Deserialize)]
pub enum Val {
    F(f64),
    U(u64),
    OptU(Option<u64>),
    OptF(Option<f64>),
    B(bool),
    S(String),
}

/// One parameter value of a grid point (literal, self-contained).
#[derive(Clone, Debug, Serialize, Deserialize)]
pub struct Pv {
    pub name: String,
    pub class: String,
    pub val: Val,
    pub doc: Doc,
    /// training with this value is pathological (e.g. a solver that can only stop at its
    /// 10^7-iteration cap): verdict oracles are run, the fit / transform calls are not
    pub skip_ops: bool,
    /// history dimension only: the builder that is being re-used already holds this value, so its
    /// setter is NOT called again when the builder is moved to this point
    #[serde(default)]
    pub keep: bool,
}

/// One grid point of one builder.
#[derive(Clone, Debug, Serialize, Deserialize)]
pub struct Case {
    pub builder: String,
    pub float: String,
    pub vals: Vec<Pv>,
}

impl Case {
    /// true when at least one of the named parameters has to be (re-)set to reach this point: always for
    /// a fresh builder, only for the values that differ from the builder's current ones in a history
    pub fn moved(&self, names: &[&str]) -> bool {
        names.iter().any(|n| !self.pv(n).keep)
    }
    pub fn pv(&self, name: &str) -> &Pv {
        self.vals.iter().find(|p| p.name == name).unwrap_or_else(|| panic!("case has no parameter {}", name))
    }
    pub fn f(&self, name: &str) -> f64 {
        match &self.pv(name).val {
            Val::F(x) => *x,
            v => panic!("parameter {} is not a float: {:?}", name, v),
        }
    }
    pub fn u(&self, name: &str) -> u64 {
        match &self.pv(name).val {
            Val::U(x) => *x,
            v => panic!("parameter {} is not an integer: {:?}", name, v),
        }
    }
    pub fn ou(&self, name: &str) -> Option<u64> {
        match &self.pv(name).val {
            Val::OptU(x) => *x,
            v => panic!("parameter {} is not an optional integer: {:?}", name, v),
        }
    }
    pub fn of(&self, name: &str) -> Option<f64> {
        match &self.pv(name).val {
            Val::OptF(x) => *x,
            v => panic!("parameter {} is not an optional float: {:?}", name, v),
        }
    }
    pub fn b(&self, name: &str) -> bool {
        match &self.pv(name).val {
            Val::B(x) => *x,
            v => panic!("parameter {} is not a bool: {:?}", name, v),
        }
    }
    pub fn s(&self, name: &str) -> &str {
        match &self.pv(name).val {
            Val::S(x) => x.as_str(),
            v => panic!("parameter {} is not a tag: {:?}", name, v),
        }
    }
}

/// Symbolic boundary value, resolved per float type into a literal that is exactly representable
/// in that type.
#[derive(Clone, Copy, Debug)]
pub enum Sym {
    /// literal (rounded to the float type)
    L(f64),
    /// smallest positive (subnormal) number of the float type
    Tiny,
    /// its negative
    NegTiny,
    /// -0.0
    NegZero,
    /// machine epsilon of the float type
    Eps,
    /// the float just below machine epsilon
    EpsBelow,
    /// 1 + epsilon (the float just above 1)
    OneAbove,
    /// the float just below 1
    OneBelow,
    /// the largest finite number of the float type
    Max,
    U(u64),
    OptU(Option<u64>),
    OptL(Option<f64>),
    /// Some(largest negative number of the float type)
    OptNegTiny,
    B(bool),
    S(&'static str),
}

pub fn resolve(sym: Sym, float: &str) -> Val {
    let f32m = float == "f32";
    let lit = |x: f64| if f32m { (x as f32) as f64 } else { x };
    match sym {
        Sym::L(x) => Val::F(lit(x)),
        Sym::Tiny => Val::F(if f32m { f32::from_bits(1) as f64 } else { f64::from_bits(1) }),
        Sym::NegTiny => Val::F(if f32m { -(f32::from_bits(1) as f64) } else { -f64::from_bits(1) }),
        Sym::NegZero => Val::F(-0.0),
        Sym::Eps => Val::F(if f32m { f32::EPSILON as f64 } else { f64::EPSILON }),
        Sym::EpsBelow => Val::F(if f32m { f32::from_bits(f32::EPSILON.to_bits() - 1) as f64 } else { f64::from_bits(f64::EPSILON.to_bits() - 1) }),
        Sym::OneAbove => Val::F(if f32m { (1.0f32 + f32::EPSILON) as f64 } else { 1.0 + f64::EPSILON }),
        Sym::OneBelow => Val::F(if f32m { f32::from_bits(1.0f32.to_bits() - 1) as f64 } else { f64::from_bits(1.0f64.to_bits() - 1) }),
        Sym::Max => Val::F(if f32m { f32::MAX as f64 } else { f64::MAX }),
        Sym::U(x) => Val::U(x),
        Sym::OptU(x) => Val::OptU(x),
        Sym::OptL(x) => Val::OptF(x.map(lit)),
        Sym::OptNegTiny => Val::OptF(Some(if f32m { -(f32::from_bits(1) as f64) } else { -f64::from_bits(1) })),
        Sym::B(x) => Val::B(x),
        Sym::S(x) => Val::S(x.to_string()),
    }
}

/// One row of a builder's table: parameter -> boundary values, each with its documented verdict.
pub struct Param {
    pub name: &'static str,
    /// where the documented range was transcribed from (file:line + quoted text)
    pub src: &'static str,
    /// (value, class, documented verdict, skip_ops)
    pub vals: Vec<(Sym, &'static str, Doc, bool)>,
}

pub struct Outcome {
    pub viols: Vec<Violation>,
    pub expected: Option<bool>,
    pub observed_ok: Option<bool>,
    pub n_invalid_params: usize,
    pub ops_run: u64,
    pub ops_skipped: u64,
    pub trained: u64,
    pub fit_errors_on_valid: u64,
    pub panics_on_valid_both_forms: u64,
    /// history dimension (explicit-state exploration of the builder): states / transitions / histories
    pub hist_states: u64,
    pub hist_transitions: u64,
    pub hist_traces: u64,
    pub hist_fit_calls: u64,
    pub hist_not_comparable: u64,
    /// consistency-only facts worth listing in the evidence: "builder param=class -> accepted|rejected"
    pub notes: Vec<String>,
}

impl Outcome {
    pub fn new() -> Self {
        Outcome { viols: vec![], expected: None, observed_ok: None, n_invalid_params: 0, ops_run: 0, ops_skipped: 0, trained: 0, fit_errors_on_valid: 0, panics_on_valid_both_forms: 0, hist_states: 0, hist_transitions: 0, hist_traces: 0, hist_fit_calls: 0, hist_not_comparable: 0, notes: vec![] }
    }
}

pub struct BuilderSpec {
    pub name: &'static str,
    pub floats: &'static [&'static str],
    pub params: Vec<Param>,
    /// relational constraints between parameters (documented): names of the violated relations
    pub relation: fn(&Case) -> Vec<(String, Doc)>,
    /// which parameter an error (Debug string) talks about
    pub err_param: fn(&str) -> Option<&'static str>,
    pub run: fn(&Case, &BuilderSpec, &mut Outcome),
}

pub fn no_relation(_: &Case) -> Vec<(String, Doc)> {
    vec![]
}

/// The full Cartesian product of the table of `spec`, for every float type it is run with.
pub fn enumerate(spec: &BuilderSpec) -> Vec<Case> {
    let mut out = Vec::new();
    for float in spec.floats {
        let dims: Vec<usize> = spec.params.iter().map(|p| p.vals.len()).collect();
        for idx in lvmc_core::enumerate::grid(&dims) {
            let vals = idx
                .iter()
                .enumerate()
                .map(|(pi, &vi)| {
                    let p = &spec.params[pi];
                    let (sym, class, doc, skip) = p.vals[vi];
                    Pv { name: p.name.to_string(), class: class.to_string(), val: resolve(sym, float), doc, skip_ops: skip, keep: false }
                })
                .collect();
            out.push(Case { builder: spec.name.to_string(), float: float.to_string(), vals });
        }
    }
    out
}

/// One way of training / transforming with the builder.
pub struct Op<'a, P: ParamGuard> {
    pub name: &'static str,
    /// called on the UNCHECKED builder (blanket impl of param_guard.rs or the crate's own wrapper):
    /// Ok(fingerprint of the result) or Err(Debug of the returned error)
    pub unchecked: Box<dyn Fn(&P) -> Result<String, String> + 'a>,
    /// the same call on the checked parameters
    pub checked: Box<dyn Fn(&P::Checked) -> Result<String, String> + 'a>,
    /// Debug of the error the form must return for the parameter error `e` of check(): the parameter
    /// error wrapped in the DOCUMENTED variant of the form's own error type, built by naming the variant
    /// (never through the crate's `From` impl, which is part of what is being checked); the identity
    /// where the form's error type is the parameter error type
    pub lift: Box<dyn Fn(P::Error) -> String + 'a>,
}

/// Fingerprint of a WHOLE dataset result: records (or a stand-in for records without Debug), targets,
/// sample weights, feature names and target names - the checked and the unchecked dataset form of a
/// transformer must agree on all of them.
pub fn ds_print<R: linfa::dataset::Records, T: linfa::dataset::AsTargets>(records: String, ds: &linfa::DatasetBase<R, T>, targets: String) -> String {
    format!("records={} targets={} weights={:?} feature_names={:?} target_names={:?}", records, targets, ds.weights(), ds.feature_names(), ds.target_names())
}

/// the same for results whose targets are not `AsTargets` (no target names available)
pub fn ds_print_plain<R: linfa::dataset::Records, T>(records: String, ds: &linfa::DatasetBase<R, T>, targets: String) -> String {
    format!("records={} targets={} weights={:?} feature_names={:?}", records, targets, ds.weights(), ds.feature_names())
}

/// Fixes the argument types of a setter-chain closure from the constructor closure.
pub fn setter<P, S: Fn(P, &Case) -> P>(_witness: &dyn Fn() -> P, f: S) -> S {
    f
}

/// Builds an `Op`; the first argument only fixes the builder type so that the closures' argument
/// types are inferred.
pub fn op<'a, P: ParamGuard>(
    _witness: &dyn Fn() -> P,
    name: &'static str,
    unchecked: impl Fn(&P) -> Result<String, String> + 'a,
    checked: impl Fn(&P::Checked) -> Result<String, String> + 'a,
    lift: impl Fn(P::Error) -> String + 'a,
) -> Op<'a, P> {
    Op { name, unchecked: Box::new(unchecked), checked: Box::new(checked), lift: Box::new(lift) }
}

/// anyhow errors (argmin) print a captured stack backtrace in their Debug form when
/// RUST_BACKTRACE is set; the addresses differ per call site and are not part of the error
pub fn norm(s: String) -> String {
    match s.find("Stack backtrace") {
        Some(i) => format!("{}<backtrace elided>", s[..i].trim_end()),
        None => s,
    }
}

fn variant_of(dbg: &str) -> String {
    dbg.chars().take_while(|c| c.is_ascii_alphanumeric() || *c == '_').collect()
}

/// Runs all oracles of the property on one grid point.
///
/// `base` constructs the builder (constructor arguments of the point), `set` applies every setter of
/// the point to an EXISTING builder value: a fresh builder is `set(base(), case)`, a re-used one is
/// `set(<builder that was configured at another point and checked / fitted / cloned>, case)`.
pub fn judge<P: ParamGuard>(
    case: &Case,
    spec: &BuilderSpec,
    base: &dyn Fn() -> P,
    set: &dyn Fn(P, &Case) -> P,
    clone: Option<&dyn Fn(&P) -> P>,
    rebuilders: &[(&'static str, &dyn Fn(P, &Case) -> P)],
    snap: &dyn Fn(&P) -> String,
    csnap: &dyn Fn(&P::Checked) -> String,
    ops: Vec<Op<'_, P>>,
    out: &mut Outcome,
) where
    P::Error: std::fmt::Debug,
{
    let make = &|| set(base(), case);
    let b = spec.name;
    let cj = |op: &str| -> Value {
        let mut v = serde_json::to_value(case).unwrap();
        v.as_object_mut().unwrap().insert("at".into(), json!(op));
        v
    };
    let point: String = case.vals.iter().map(|p| format!("{}={:?}[{}]", p.name, p.val, p.class)).collect::<Vec<_>>().join(", ");

    // ---- documented verdict of the point ----
    let mut invalid: Vec<String> = case.vals.iter().filter(|p| p.doc == Doc::Invalid).map(|p| format!("{}={}", p.name, p.class)).collect();
    let mut unspec: Vec<String> = case.vals.iter().filter(|p| p.doc == Doc::Unspec).map(|p| format!("{}={}", p.name, p.class)).collect();
    for (rel, d) in (spec.relation)(case) {
        match d {
            Doc::Invalid => invalid.push(rel),
            Doc::Unspec => unspec.push(rel),
            Doc::Valid => {}
        }
    }
    out.n_invalid_params = invalid.len();
    out.expected = if !invalid.is_empty() {
        Some(false)
    } else if !unspec.is_empty() {
        None
    } else {
        Some(true)
    };

    // ---- check_ref (by reference) and check (by value) ----
    let bref = make();
    let s0 = snap(&bref);
    let r_ref = guarded(|| bref.check_ref().map(|c| csnap(c)).map_err(|e| format!("{:?}", e)));
    let s1 = snap(&bref);
    let r_val = guarded(|| make().check().map(|c| csnap(&c)).map_err(|e| format!("{:?}", e)));
    let (r_ref, r_val) = match (r_ref, r_val) {
        (Ok(a), Ok(b2)) => (a, b2),
        (a, b2) => {
            let which = if a.is_err() { "check_ref" } else { "check" };
            let msg = a.err().or(b2.err()).unwrap_or_default();
            out.viols.push(Violation::new(format!("{}.{}.panic", b, which), format!("{}() panicked instead of returning a verdict: {} at point {}", which, msg, point), cj(which)));
            return;
        }
    };
    if s0 != s1 {
        out.viols.push(Violation::new(format!("{}.check_ref.mutates_builder", b), format!("builder before check_ref: {} after: {}", s0, s1), cj("check_ref")));
    }
    if r_ref != r_val {
        let sig = if r_ref.is_ok() != r_val.is_ok() { "verdict_differs" } else if r_ref.is_err() { "error_differs" } else { "checked_params_differ" };
        out.viols.push(Violation::new(
            format!("{}.check_vs_check_ref.{}", b, sig),
            format!("check() = {:?} but check_ref() = {:?} at point {}", r_val, r_ref, point),
            cj("check_vs_check_ref"),
        ));
    }
    if let Ok(cs) = &r_ref {
        if !s0.is_empty() && !cs.is_empty() && !s0.contains(cs.as_str()) {
            out.viols.push(Violation::new(
                format!("{}.check_ref.checked_params_differ_from_builder", b),
                format!("checked parameters {} are not the builder's parameters {}", cs, s0),
                cj("check_ref"),
            ));
        }
    }
    let observed_ok = r_ref.is_ok();
    out.observed_ok = Some(observed_ok);

    // ---- documented predicate ----
    match out.expected {
        Some(true) if !observed_ok => {
            let e = r_ref.as_ref().err().cloned().unwrap_or_default();
            // narrow signature: the parameter the error talks about and the class of its value
            let who = match (spec.err_param)(&e) {
                Some(p) => case.vals.iter().find(|x| x.name == p).map(|x| format!("{}={}", x.name, x.class)).unwrap_or_else(|| p.to_string()),
                None => variant_of(&e),
            };
            out.viols.push(Violation::new(
                format!("{}.check.rejects_valid.{}", b, who),
                format!("every value lies in its documented range, but check() returned Err({}) at point {}", e, point),
                cj("check"),
            ));
        }
        Some(false) if observed_ok => {
            out.viols.push(Violation::new(
                format!("{}.check.accepts_invalid.{}", b, invalid.join("+")),
                format!("documented as out of range: [{}], but check() and check_ref() returned Ok at point {}", invalid.join(", "), point),
                cj("check"),
            ));
        }
        None => {
            // list the consistency-only boundary points (one questionable value, everything else valid)
            let about_it = match r_ref.as_ref().err().and_then(|e| (spec.err_param)(e)) {
                Some(p) => unspec.len() == 1 && unspec[0].starts_with(&format!("{}=", p)),
                None => true,
            };
            if unspec.len() == 1 && out.viols.is_empty() && about_it {
                let why = if observed_ok { "accepted".to_string() } else { format!("rejected with {}", variant_of(r_ref.as_ref().err().map(|s| s.as_str()).unwrap_or(""))) };
                out.notes.push(format!("consistency-only: {} {} -> {}", b, unspec[0], why));
            }
        }
        _ => {}
    }
    // the error must talk about a parameter that is not documented as valid (observation only:
    // the property statement does not constrain WHICH error is reported)
    if let Err(e) = &r_ref {
        if let Some(p) = (spec.err_param)(e) {
            if let Some(x) = case.vals.iter().find(|x| x.name == p) {
                if x.doc == Doc::Valid && out.expected == Some(false) {
                    out.notes.push(format!("{} error {} names parameter {} whose value is documented valid", b, variant_of(e), p));
                }
            }
        }
    }

    // ---- fit / fit_with / transform on the unchecked builder ----
    // the guard let a documented-invalid point through: already reported; do not train on it.
    // Likewise no training on values flagged skip_ops.
    let run_ops = !(out.expected == Some(false) && observed_ok) && !(case.vals.iter().any(|p| p.skip_ops) && observed_ok);
    let mut fresh_u: Vec<OpRes> = Vec::new();
    if !run_ops {
        out.ops_skipped += ops.len() as u64;
    }
    for op in ops.iter().filter(|_| run_ops) {
        out.ops_run += 1;
        let u = guarded(|| (op.unchecked)(&make()).map_err(norm));
        let u2 = guarded(|| (op.unchecked)(&bref).map_err(norm));
        fresh_u.push(u.clone());
        if observed_ok {
            let c = match make().check() {
                Ok(c) => c,
                Err(_) => continue, // already reported as check_vs_check_ref
            };
            let v = guarded(|| (op.checked)(&c).map_err(norm));
            if u != v {
                out.viols.push(Violation::new(
                    format!("{}.{}.unchecked_differs_from_checked", b, op.name),
                    format!("{} on the unchecked builder gave {} but on the checked parameters {}{} at point {}", op.name, show(&u), show(&v), first_diff(&u, &v), point),
                    cj(op.name),
                ));
            }
            if u2 != u {
                out.viols.push(Violation::new(
                    format!("{}.{}.differs_after_check_ref", b, op.name),
                    format!("{} on a builder that went through check_ref gave {} but on a fresh builder {} at point {}", op.name, show(&u2), show(&u), point),
                    cj(op.name),
                ));
            }
            match &u {
                Ok(Ok(_)) => out.trained += 1,
                Ok(Err(_)) => out.fit_errors_on_valid += 1,
                Err(p) => {
                    out.panics_on_valid_both_forms += 1;
                    out.notes.push(format!("{} {} panics on accepted parameters in BOTH the checked and the unchecked form (outside this property): {}", b, op.name, trunc(&p.replace('\n', " "))));
                }
            }
        } else {
            let e = match make().check() {
                Err(e) => e,
                Ok(_) => continue,
            };
            let want = norm((op.lift)(e));
            for (form, r) in [("fresh builder", &u), ("builder after check_ref", &u2)] {
                match r {
                    Err(p) => out.viols.push(Violation::new(
                        format!("{}.{}.panic_on_invalid", b, op.name),
                        format!("{} on the unchecked {} panicked ({}) instead of returning {} at point {}", op.name, form, p, want, point),
                        cj(op.name),
                    )),
                    Ok(Ok(fp)) => out.viols.push(Violation::new(
                        format!("{}.{}.trained_on_invalid", b, op.name),
                        format!("{} on the unchecked {} returned Ok({}) although check() fails with {} at point {}", op.name, form, trunc(fp), want, point),
                        cj(op.name),
                    )),
                    Ok(Err(got)) => {
                        if *got != want {
                            out.viols.push(Violation::new(
                                format!("{}.{}.different_error", b, op.name),
                                format!("{} on the unchecked {} returned Err({}) but check() fails with {} at point {}", op.name, form, got, want, point),
                                cj(op.name),
                            ));
                        }
                    }
                }
            }
        }
    }

    // ---- history dimension: the verdict must not depend on what the builder value went through ----
    run_history(case, spec, base, set, clone, rebuilders, snap, csnap, &ops, &r_ref, &s0, &fresh_u, run_ops, &point, out);
}

type OpRes = Result<Result<String, String>, String>;

/// A fixed point of the builder's table with a documented verdict: valid (every value the default /
/// "inside" entry) or invalid (the valid point with the LAST parameter that has an invalid entry moved
/// to its first invalid value).
pub fn reference_point(spec: &BuilderSpec, float: &str, invalid: bool) -> Option<Case> {
    let mut vals: Vec<Pv> = Vec::new();
    for p in &spec.params {
        let cands: Vec<&(Sym, &'static str, Doc, bool)> = p.vals.iter().filter(|v| v.2 == Doc::Valid && !v.3).collect();
        let pick = cands
            .iter()
            .find(|v| ["unset", "none", "default"].contains(&v.1))
            .or_else(|| cands.iter().find(|v| v.1 == "inside"))
            .or_else(|| cands.first())?;
        vals.push(Pv { name: p.name.to_string(), class: pick.1.to_string(), val: resolve(pick.0, float), doc: pick.2, skip_ops: pick.3, keep: false });
    }
    if invalid {
        let (i, bad) = spec.params.iter().enumerate().rev().find_map(|(i, p)| p.vals.iter().find(|v| v.2 == Doc::Invalid).map(|v| (i, v)))?;
        vals[i] = Pv { name: spec.params[i].name.to_string(), class: bad.1.to_string(), val: resolve(bad.0, float), doc: bad.2, skip_ops: bad.3, keep: false };
    }
    Some(Case { builder: spec.name.to_string(), float: float.to_string(), vals })
}

pub const HISTORIES: [&str; 5] = ["checked_then_moved", "checked_cloned_then_moved", "fitted_then_moved", "rejected_then_moved", "valid_then_invalid_then_moved"];

/// Explicit-state exploration of the builder as a tiny state machine. State = (builder value,
/// what it went through); actions = configure at the valid reference point A (or the invalid one A'),
/// check_ref, fit on the unchecked builder, clone, apply the setters of the grid point B. Every
/// history ends at B, where check_ref(), check() and the unchecked training calls must give exactly
/// what the freshly built builder at B gives.
#[allow(clippy::too_many_arguments)]
fn run_history<P: ParamGuard>(
    case: &Case,
    spec: &BuilderSpec,
    base: &dyn Fn() -> P,
    set: &dyn Fn(P, &Case) -> P,
    clone: Option<&dyn Fn(&P) -> P>,
    rebuilders: &[(&'static str, &dyn Fn(P, &Case) -> P)],
    snap: &dyn Fn(&P) -> String,
    csnap: &dyn Fn(&P::Checked) -> String,
    ops: &[Op<'_, P>],
    r_fresh: &Result<String, String>,
    s_fresh: &str,
    fresh_u: &[OpRes],
    run_ops: bool,
    point: &str,
    out: &mut Outcome,
) where
    P::Error: std::fmt::Debug,
{
    let b = spec.name;
    let a = match reference_point(spec, &case.float, false) {
        Some(a) => a,
        None => return,
    };
    let bad = reference_point(spec, &case.float, true);
    // moving a builder from `from` to this point calls only the setters of the values that differ
    // (a user does not re-set what the builder already holds; re-setting everything would also hide a
    // stale "already checked" flag that some setters clear and others do not)
    let same = |x: &Val, y: &Val| match (x, y) {
        (Val::F(a), Val::F(b)) => a.to_bits() == b.to_bits(),
        (Val::OptF(Some(a)), Val::OptF(Some(b))) => a.to_bits() == b.to_bits(),
        _ => x == y,
    };
    let moved_from = |from: &Case| -> Case {
        let mut c = case.clone();
        for p in c.vals.iter_mut() {
            p.keep = same(&p.val, &from.pv(&p.name).val);
        }
        c
    };
    let from_a = moved_from(&a);
    let from_bad = bad.as_ref().map(|b| moved_from(b));
    let a_to_bad: Option<Case> = bad.as_ref().map(|bc| {
        let mut c = bc.clone();
        for p in c.vals.iter_mut() {
            p.keep = same(&p.val, &a.pv(&p.name).val);
        }
        c
    });
    let build = |k: usize| -> Option<P> {
        match k {
            0 => {
                let p = set(base(), &a);
                let _ = p.check_ref().is_ok();
                Some(set(p, &from_a))
            }
            1 => clone.map(|cl| {
                let p = set(base(), &a);
                let _ = p.check_ref().is_ok();
                let q = cl(&p);
                set(q, &from_a)
            }),
            2 => ops.first().map(|op| {
                let p = set(base(), &a);
                let _ = (op.unchecked)(&p).is_ok();
                set(p, &from_a)
            }),
            3 => bad.as_ref().map(|bc| {
                let p = set(base(), bc);
                let _ = p.check_ref().is_ok();
                set(p, from_bad.as_ref().unwrap())
            }),
            // last write wins: valid A, then the invalid A', then B - no check in between
            4 => bad.as_ref().map(|bc| {
                let p = set(base(), &a);
                let p = set(p, &a_to_bad.clone().unwrap());
                let _ = bc;
                set(p, from_bad.as_ref().unwrap())
            }),
            // rebuilding / type-changing setters (with_rng, dist_fn, nn_algo, init_method, kernel, tokenizer ...),
            // called with the value the point already has: every value setter of B BEFORE it, or AFTER it
            _ => {
                let j = k - 5;
                let n = rebuilders.len();
                if j < 2 * n {
                    let (_, rb) = rebuilders[j / 2];
                    if j % 2 == 0 {
                        Some(rb(set(base(), case), case))
                    } else {
                        Some(set(rb(base(), case), case))
                    }
                } else if j == 2 * n && n >= 2 {
                    let mut p = set(base(), case);
                    for (_, rb) in rebuilders {
                        p = rb(p, case);
                    }
                    Some(p)
                } else {
                    None
                }
            }
        }
    };
    let mut hnames: Vec<String> = HISTORIES.iter().map(|s| s.to_string()).collect();
    for (n, _) in rebuilders {
        hnames.push(format!("values_then_{}", n));
        hnames.push(format!("{}_then_values", n));
    }
    if rebuilders.len() >= 2 {
        hnames.push("values_then_all_rebuilding_setters".to_string());
    }
    for (k, hname) in hnames.iter().enumerate() {
        let p = match guarded(|| build(k)) {
            Ok(Some(p)) => p,
            _ => continue, // history not available for this builder (no Clone / no invalid entry) or A itself panics
        };
        let (st, tr) = if k < 5 { [(3, 2), (4, 3), (3, 2), (3, 2), (3, 2)][k] } else { (2, 1 + if hname.contains("all_rebuilding") { rebuilders.len() as u64 - 1 } else { 0 }) };
        out.hist_states += st;
        out.hist_transitions += tr;
        let at = format!("history.{}", hname);
        let cj = || -> Value {
            let mut v = serde_json::to_value(case).unwrap();
            let o = v.as_object_mut().unwrap();
            o.insert("at".into(), json!(at));
            o.insert("history".into(), json!({"name": hname, "first_configured_at": if k == 3 { bad.as_ref() } else if k >= 5 { None } else { Some(&a) }.map(|c| c.vals.iter().map(|p| format!("{}={:?}", p.name, p.val)).collect::<Vec<_>>())}));
            v
        };
        // the re-used builder must hold the parameters of B (otherwise the harness' setter chain does
        // not reach B from A for this builder: not comparable, counted)
        let sp = snap(&p);
        if !s_fresh.is_empty() && sp != s_fresh {
            if k >= 5 {
                // a rebuilding setter called with the value the builder already has must carry every other
                // parameter over: the final logical parameter set is B in either order
                out.viols.push(Violation::new(
                    format!("{}.history.{}.parameters_differ_from_fresh", b, hname),
                    format!("the builder reached through `{}` holds {} but the same calls in the harness' default order give {}; point {}", hname, sp, s_fresh, point),
                    cj(),
                ));
            } else {
                out.hist_not_comparable += 1;
                continue;
            }
        } else {
            out.hist_traces += 1;
        }
        if k >= 5 && s_fresh.is_empty() {
            // no snapshot available (builder without Debug): verdicts and fits still compared
        }
        
        let rh = guarded(|| p.check_ref().map(|c| csnap(c)).map_err(|e| format!("{:?}", e)));
        let rv = guarded(|| build(k).map(|q| q.check().map(|c| csnap(&c)).map_err(|e| format!("{:?}", e))));
        let rv = match rv {
            Ok(Some(r)) => Ok(r),
            Ok(None) => continue,
            Err(e) => Err(e),
        };
        let mut agrees = true;
        for (form, r) in [("check_ref", &rh), ("check", &rv)] {
            match r {
                Err(pmsg) => {
                    agrees = false;
                    out.viols.push(Violation::new(format!("{}.history.{}.{}_panic", b, hname, form), format!("{}() on the re-used builder ({}) panicked: {} at point {}", form, hname, pmsg, point), cj()));
                }
                Ok(r) if r != r_fresh => {
                    agrees = false;
                    let sig = if r.is_ok() != r_fresh.is_ok() { "verdict_differs_from_fresh" } else { "result_differs_from_fresh" };
                    out.viols.push(Violation::new(
                        format!("{}.history.{}.{}_{}", b, hname, form, sig),
                        format!("{}() on a builder with history `{}` moved to this point gives {:?}, on a freshly built builder with the same values {:?}; point {}", form, hname, r, r_fresh, point),
                        cj(),
                    ));
                }
                _ => {}
            }
        }
        if !agrees || !run_ops {
            continue;
        }
        // training calls on the re-used builder: every form for the first history, the first form for the others
        let n_ops = if k == 0 { ops.len() } else { 1.min(ops.len()) };
        for (i, op) in ops.iter().take(n_ops).enumerate() {
            let Some(want) = fresh_u.get(i) else { continue };
            out.hist_fit_calls += 1;
            let got = guarded(|| (op.unchecked)(&p).map_err(norm));
            if &got != want {
                out.viols.push(Violation::new(
                    format!("{}.history.{}.{}.differs_from_fresh", b, hname, op.name),
                    format!("{} on the unchecked re-used builder ({}) gave {} but on a freshly built builder {} at point {}", op.name, hname, show(&got), show(want), point),
                    cj(),
                ));
            }
        }
    }
}

/// where two long fingerprints start to differ
fn first_diff(a: &OpRes, b: &OpRes) -> String {
    match (a, b) {
        (Ok(Ok(x)), Ok(Ok(y))) => {
            let (xc, yc): (Vec<char>, Vec<char>) = (x.chars().collect(), y.chars().collect());
            let i = xc.iter().zip(yc.iter()).take_while(|(p, q)| p == q).count();
            let from = i.saturating_sub(40);
            let cut = |v: &Vec<char>| v.iter().skip(from).take(120).collect::<String>();
            format!(" [first difference at char {}: ...{} | ...{}]", i, cut(&xc), cut(&yc))
        }
        _ => String::new(),
    }
}

fn trunc(s: &str) -> String {
    if s.chars().count() <= 160 {
        s.to_string()
    } else {
        format!("{}...", s.chars().take(160).collect::<String>())
    }
}

fn show(r: &Result<Result<String, String>, String>) -> String {
    match r {
        Ok(Ok(s)) => format!("Ok({})", trunc(s)),
        Ok(Err(s)) => format!("Err({})", trunc(s)),
        Err(p) => format!("PANIC({})", trunc(p)),
    }
}

// ------------------------------------------------------------------------------------------
// common boundary lists
// ------------------------------------------------------------------------------------------

/// "must be greater than 0" (strict, unambiguous at 0): far below, just below, -0.0, +0.0,
/// just inside, inside, far inside.
pub fn gt0(name: &'static str, src: &'static str, inside: f64, far: f64) -> Param {
    Param {
        name,
        src,
        vals: vec![
            (Sym::L(-1e10), "far_below", I, false),
            (Sym::NegTiny, "just_below", I, false),
            (Sym::NegZero, "neg_zero", I, false),
            (Sym::L(0.0), "zero", I, false),
            (Sym::Tiny, "just_inside", V, false),
            (Sym::L(inside), "inside", V, false),
            (Sym::L(far), "far_inside", V, false),
            // valid extreme: the largest finite value must pass the guards; no training call with it
            (Sym::Max, "max_finite", V, true),
        ],
    }
}

/// documented closed interval `[0, inf)` (or explicit "0 is allowed"): -0.0 == 0 lies inside.
pub fn ge0(name: &'static str, src: &'static str, inside: f64, far: f64) -> Param {
    Param {
        name,
        src,
        vals: vec![
            (Sym::L(-1e10), "far_below", I, false),
            (Sym::NegTiny, "just_below", I, false),
            (Sym::NegZero, "neg_zero", V, false),
            (Sym::L(0.0), "zero", V, false),
            (Sym::Tiny, "just_inside", V, false),
            (Sym::L(inside), "inside", V, false),
            (Sym::L(far), "far_inside", V, false),
            // valid extreme: the largest finite value must pass the guards; no training call with it
            (Sym::Max, "max_finite", V, true),
        ],
    }
}

/// loose wording ("should be positive", "negative ...", "should not be negative"): negative values
/// are out, positive values are in, and the text does not settle +0.0 / -0.0 (this code base uses
/// "positive" for parameters whose default is 0, e.g. FTRL beta) -> consistency-only at zero.
pub fn loose0(name: &'static str, src: &'static str, inside: f64, far: f64) -> Param {
    Param {
        name,
        src,
        vals: vec![
            (Sym::L(-1e10), "far_below", I, false),
            (Sym::NegTiny, "just_below", I, false),
            (Sym::NegZero, "neg_zero", U, false),
            (Sym::L(0.0), "zero", U, false),
            (Sym::Tiny, "just_inside", V, false),
            (Sym::L(inside), "inside", V, false),
            (Sym::L(far), "far_inside", V, false),
            // valid extreme: the largest finite value must pass the guards; no training call with it
            (Sym::Max, "max_finite", V, true),
        ],
    }
}

/// documented closed unit interval [0, 1]
pub fn unit_closed(name: &'static str, src: &'static str) -> Param {
    Param {
        name,
        src,
        vals: vec![
            (Sym::L(-1e10), "far_below", I, false),
            (Sym::NegTiny, "just_below", I, false),
            (Sym::NegZero, "neg_zero", V, false),
            (Sym::L(0.0), "at_lower", V, false),
            (Sym::Tiny, "just_inside", V, false),
            (Sym::L(0.5), "inside", V, false),
            (Sym::OneBelow, "just_below_upper", V, false),
            (Sym::L(1.0), "at_upper", V, false),
            (Sym::OneAbove, "just_above_upper", I, false),
            (Sym::L(1e10), "far_above", I, false),
        ],
    }
}

/// count with documented minimum 1 ("cannot be 0")
pub fn count_ge1(name: &'static str, src: &'static str, inside: u64, far: u64) -> Param {
    Param {
        name,
        src,
        vals: vec![(Sym::U(0), "zero", I, false), (Sym::U(1), "at_lower", V, false), (Sym::U(inside), "inside", V, false), (Sym::U(far), "far_inside", V, false), (Sym::U(u32::MAX as u64), "huge", V, true)],
    }
}

/// count with documented minimum 2 ("must be greater than 1")
pub fn count_ge2(name: &'static str, src: &'static str, inside: u64, far: u64) -> Param {
    Param {
        name,
        src,
        vals: vec![
            (Sym::U(0), "far_below", I, false),
            (Sym::U(1), "just_below", I, false),
            (Sym::U(2), "at_lower", V, false),
            (Sym::U(inside), "inside", V, false),
            (Sym::U(far), "far_inside", V, false),
            (Sym::U(u32::MAX as u64), "huge", V, true),
        ],
    }
}

/// parameter without a documented range: every listed value is in range
pub fn free(name: &'static str, src: &'static str, vals: Vec<(Sym, &'static str)>) -> Param {
    Param { name, src, vals: vals.into_iter().map(|(s, c)| (s, c, V, false)).collect() }
}
