//! Decision tree, naive Bayes (Gaussian / multinomial), FTRL, PLS (regression / canonical / CCA),
//! t-SNE, FastICA, diffusion map, random projection (Gaussian / sparse), Platt scaling, count
//! vectoriser, and a counting mock that exercises the three blanket impls of param_guard.rs.

use crate::fw::*;
use linfa::dataset::Pr;
use linfa::traits::{Fit, FitWith, Predict, PredictInplace, Transformer};
use linfa::{Dataset, DatasetBase, Float, ParamGuard, Platt, PlattError};
use linfa_bayes::{GaussianNb, MultinomialNb, NaiveBayesError};
use linfa_ftrl::{Ftrl, FtrlError};
use linfa_ica::fast_ica::FastIca;
use linfa_kernel::{Kernel, KernelMethod};
use linfa_pls::{Algorithm, PlsCanonical, PlsCca, PlsError, PlsRegression};
use linfa_preprocessing::{CountVectorizer, Tokenizer};
use linfa_reduction::random_projection::{GaussianRandomProjection, SparseRandomProjection};
use linfa_reduction::{DiffusionMap, ReductionError};
use linfa_trees::{DecisionTree, SplitQuality};
use linfa_tsne::TSneParams;
use ndarray::{Array1, Array2};
use rand::SeedableRng;
use rand_xoshiro::Xoshiro256Plus;
use std::sync::atomic::{AtomicUsize, Ordering};

fn dbg<T: std::fmt::Debug>(x: &T) -> String {
    format!("{:?}", x)
}

const X: [[f64; 2]; 8] = [[0.0, 1.0], [1.0, 0.5], [2.0, 2.0], [1.5, 0.0], [4.0, 3.5], [5.0, 3.0], [6.0, 4.0], [5.5, 2.5]];
const LAB: [usize; 8] = [0, 0, 0, 0, 1, 1, 1, 1];

fn xmat<F: Float>() -> Array2<F> {
    Array2::from_shape_fn((8, 2), |(i, j)| F::cast(X[i][j]))
}
fn labels() -> Array1<usize> {
    Array1::from_shape_fn(8, |i| LAB[i])
}

// ------------------------------------------------------------------------------------------
// decision tree
// ------------------------------------------------------------------------------------------
pub fn tree_spec() -> BuilderSpec {
    BuilderSpec {
        name: "decision_tree",
        floats: &["f64", "f32"],
        params: vec![
            Param {
                name: "min_impurity_decrease",
                src: "linfa-trees/src/decision_trees/hyperparams.rs:178 \"Minimum impurity decrease should be greater than zero\"",
                vals: vec![
                    (Sym::L(-1e10), "far_below", I, false),
                    (Sym::NegTiny, "just_below", I, false),
                    (Sym::NegZero, "neg_zero", I, false),
                    (Sym::L(0.0), "zero", I, false),
                    // (0, machine epsilon): the error text says "greater than zero", the guard is
                    // `< F::epsilon()` and the existing test's comment reads "a small or negative
                    // impurity decrease panics" -> sources contradict each other: consistency-only
                    (Sym::Tiny, "just_inside", U, false),
                    (Sym::EpsBelow, "just_below_machine_epsilon", U, false),
                    (Sym::Eps, "machine_epsilon", V, false),
                    (Sym::L(1e-5), "inside", V, false),
                    (Sym::L(1e10), "far_inside", V, false),
                ],
            },
            free("max_depth", "linfa-trees/src/decision_trees/hyperparams.rs:120 optional limit, no documented range", vec![(Sym::OptU(None), "none"), (Sym::OptU(Some(1)), "one")]),
            free("split_quality", "linfa-trees/src/decision_trees/hyperparams.rs:114 enum", vec![(Sym::S("gini"), "gini"), (Sym::S("entropy"), "entropy")]),
            free("min_weight_leaf", "linfa-trees/src/decision_trees/hyperparams.rs:135 no documented range", vec![(Sym::L(1.0), "default"), (Sym::L(2.0), "two")]),
        ],
        relation: no_relation,
        err_param: |e| if e.contains("impurity") { Some("min_impurity_decrease") } else { None },
        run: |c, s, o| if c.float == "f32" { tree::<f32>(c, s, o) } else { tree::<f64>(c, s, o) },
    }
}

fn tree<F: Float>(case: &Case, spec: &BuilderSpec, out: &mut Outcome) {
    let ds = Dataset::new(xmat::<F>(), labels()).with_weights(Array1::from_shape_fn(8, |i| 1.0 + (i % 2) as f32)).with_feature_names(vec!["a", "b"]);
    let base = || DecisionTree::<F, usize>::params();
    let set = setter(&base, |mut p, c| { if c.moved(&["min_impurity_decrease"]) { p = p.min_impurity_decrease(F::cast(c.f("min_impurity_decrease"))); } if c.moved(&["max_depth"]) { p = p.max_depth(c.ou("max_depth").map(|d| d as usize)); } if c.moved(&["split_quality"]) { p = p.split_quality(if c.s("split_quality") == "gini" { SplitQuality::Gini } else { SplitQuality::Entropy }); } if c.moved(&["min_weight_leaf"]) { p = p.min_weight_leaf(c.f("min_weight_leaf") as f32); } p });
    let make = || set(base(), case);
    let show = |m: &DecisionTree<F, usize>| format!("depth={} leaves={} predictions={:?}", m.max_depth(), m.num_leaves(), m.predict(ds.records()));
    let ops = vec![op(
        &make,
        "fit",
        |p| p.fit(&ds).map(|m| show(&m)).map_err(|e: linfa::Error| dbg(&e)),
        |p| p.fit(&ds).map(|m| show(&m)).map_err(|e: linfa::Error| dbg(&e)),
        |e| dbg(&e),
    )];
    judge(case, spec, &base, &set, Some(&|p| p.clone()), &[], &|p| dbg(p), &|c| dbg(c), ops, out);
}

// ------------------------------------------------------------------------------------------
// naive Bayes
// ------------------------------------------------------------------------------------------
pub fn gaussian_nb_spec() -> BuilderSpec {
    BuilderSpec {
        name: "gaussian_nb",
        floats: &["f64", "f32"],
        params: vec![ge0("var_smoothing", "linfa-bayes/src/hyperparams.rs:45 range table `[0, inf)`; :51 \"InvalidSmoothing if the smoothing parameter is negative\"", 1e-9, 1e10)],
        relation: no_relation,
        err_param: |e| if e.contains("InvalidSmoothing") { Some("var_smoothing") } else { None },
        run: |c, s, o| if c.float == "f32" { gnb::<f32>(c, s, o) } else { gnb::<f64>(c, s, o) },
    }
}

pub fn multinomial_nb_spec() -> BuilderSpec {
    BuilderSpec {
        name: "multinomial_nb",
        floats: &["f64", "f32"],
        params: vec![ge0("alpha", "linfa-bayes/src/hyperparams.rs:137 range table `[0, inf)` \"(0 for no smoothing)\"; :143 \"InvalidSmoothing if the smoothing parameter is negative\"", 1.0, 1e10)],
        relation: no_relation,
        err_param: |e| if e.contains("InvalidSmoothing") { Some("alpha") } else { None },
        run: |c, s, o| if c.float == "f32" { mnb::<f32>(c, s, o) } else { mnb::<f64>(c, s, o) },
    }
}

fn gnb<F: Float>(case: &Case, spec: &BuilderSpec, out: &mut Outcome) {
    let ds = Dataset::new(xmat::<F>(), labels());
    let base = || GaussianNb::<F, usize>::params();
    let set = setter(&base, |mut p, c| { if c.moved(&["var_smoothing"]) { p = p.var_smoothing(F::cast(c.f("var_smoothing"))); } p });
    let make = || set(base(), case);
    let show = |m: &GaussianNb<F, usize>| format!("predictions={:?}", m.predict(ds.records()));
    let ops = vec![
        op(
            &make,
            "fit",
            |p| p.fit(&ds).map(|m| show(&m)).map_err(|e: NaiveBayesError| dbg(&e)),
            |p| p.fit(&ds).map(|m| show(&m)).map_err(|e: NaiveBayesError| dbg(&e)),
            |e| dbg(&e),
        ),
        op(
            &make,
            "fit_with",
            |p| p.fit_with(None, &ds).map(|m| m.map(|m| show(&m)).unwrap_or_default()).map_err(|e: NaiveBayesError| dbg(&e)),
            |p| p.fit_with(None, &ds).map(|m| m.map(|m| show(&m)).unwrap_or_default()).map_err(|e: NaiveBayesError| dbg(&e)),
            |e| dbg(&e),
        ),
    ];
    judge(case, spec, &base, &set, Some(&|p| p.clone()), &[], &|p| dbg(p), &|c| dbg(c), ops, out);
}

fn mnb<F: Float>(case: &Case, spec: &BuilderSpec, out: &mut Outcome) {
    let ds = Dataset::new(xmat::<F>(), labels());
    let base = || MultinomialNb::<F, usize>::params();
    let set = setter(&base, |mut p, c| { if c.moved(&["alpha"]) { p = p.alpha(F::cast(c.f("alpha"))); } p });
    let make = || set(base(), case);
    let show = |m: &MultinomialNb<F, usize>| format!("predictions={:?}", m.predict(ds.records()));
    let ops = vec![
        op(
            &make,
            "fit",
            |p| p.fit(&ds).map(|m| show(&m)).map_err(|e: NaiveBayesError| dbg(&e)),
            |p| p.fit(&ds).map(|m| show(&m)).map_err(|e: NaiveBayesError| dbg(&e)),
            |e| dbg(&e),
        ),
        op(
            &make,
            "fit_with",
            |p| p.fit_with(None, &ds).map(|m| m.map(|m| show(&m)).unwrap_or_default()).map_err(|e: NaiveBayesError| dbg(&e)),
            |p| p.fit_with(None, &ds).map(|m| m.map(|m| show(&m)).unwrap_or_default()).map_err(|e: NaiveBayesError| dbg(&e)),
            |e| dbg(&e),
        ),
    ];
    judge(case, spec, &base, &set, Some(&|p| p.clone()), &[], &|p| dbg(p), &|c| dbg(c), ops, out);
}

// ------------------------------------------------------------------------------------------
// FTRL
// ------------------------------------------------------------------------------------------
pub fn ftrl_spec() -> BuilderSpec {
    BuilderSpec {
        name: "ftrl",
        floats: &["f64", "f32"],
        params: vec![
            // "must be positive and finite"; beta is documented the same way and DEFAULTS to 0.0, so
            // "positive" does not settle zero
            loose0("alpha", "linfa-ftrl/src/hyperparams.rs:106 \"`alpha` must be positive and finite\"; error.rs:16", 0.005, 1e10),
            loose0("beta", "linfa-ftrl/src/hyperparams.rs:116 \"`beta` must be positive and finite\" (default 0.0, hyperparams.rs:95); error.rs:18", 1.0, 1e10),
            unit_closed("l1_ratio", "linfa-ftrl/src/hyperparams.rs:126 \"`l1_ratio` must be between `0.0` and `1.0`\"; error.rs:12 \"range [0, 1]\""),
            unit_closed("l2_ratio", "linfa-ftrl/src/hyperparams.rs:137 \"`l2_ratio` must be between `0.0` and `1.0`\"; error.rs:14 \"range [0, 1]\""),
        ],
        relation: no_relation,
        err_param: |e| {
            if e.contains("InvalidL1Ratio") {
                Some("l1_ratio")
            } else if e.contains("InvalidL2Ratio") {
                Some("l2_ratio")
            } else if e.contains("InvalidAlpha") {
                Some("alpha")
            } else if e.contains("InvalidBeta") {
                Some("beta")
            } else {
                None
            }
        },
        run: |c, s, o| if c.float == "f32" { ftrl::<f32>(c, s, o) } else { ftrl::<f64>(c, s, o) },
    }
}

fn ftrl<F: Float>(case: &Case, spec: &BuilderSpec, out: &mut Outcome) {
    let ds = Dataset::new(xmat::<F>(), Array1::from_shape_fn(8, |i| LAB[i] == 1));
    let base = || Ftrl::<F>::params_with_rng(Xoshiro256Plus::seed_from_u64(42));
    let set = setter(&base, |mut p, c| { if c.moved(&["alpha"]) { p = p.alpha(F::cast(c.f("alpha"))); } if c.moved(&["beta"]) { p = p.beta(F::cast(c.f("beta"))); } if c.moved(&["l1_ratio"]) { p = p.l1_ratio(F::cast(c.f("l1_ratio"))); } if c.moved(&["l2_ratio"]) { p = p.l2_ratio(F::cast(c.f("l2_ratio"))); } p });
    let make = || set(base(), case);
    let ops = vec![op(
        &make,
        "fit_with",
        |p| p.fit_with(None, &ds).map(|m| dbg(&m)).map_err(|e: FtrlError| dbg(&e)),
        |p| p.fit_with(None, &ds).map(|m| dbg(&m)).map_err(|e: FtrlError| dbg(&e)),
        |e| dbg(&e),
    )];
    let rb_rng = setter(&base, |p, _c| p.rng(Xoshiro256Plus::seed_from_u64(42)));
    judge(case, spec, &base, &set, Some(&|p| p.clone()), &[("rng", &rb_rng)], &|p| dbg(p), &|c| dbg(c), ops, out);
}

// ------------------------------------------------------------------------------------------
// PLS
// ------------------------------------------------------------------------------------------
fn pls_params() -> Vec<Param> {
    vec![
        Param {
            name: "tolerance",
            // "should not be negative": 0 is clearly allowed; whether -0.0 "is negative" is not settled
            src: "linfa-pls/src/errors.rs:14 \"The tolerance is should not be negative, NaN or inf\"",
            vals: vec![
                (Sym::L(-1e10), "far_below", I, false),
                (Sym::NegTiny, "just_below", I, false),
                (Sym::NegZero, "neg_zero", U, false),
                (Sym::L(0.0), "zero", V, false),
                (Sym::Tiny, "just_inside", V, false),
                (Sym::L(1e-6), "inside", V, false),
                (Sym::L(1e10), "far_inside", V, false),
                (Sym::Max, "max_finite", V, true),
            ],
        },
        count_ge1("max_iter", "linfa-pls/src/errors.rs:16 \"The maximal number of iterations should be positive\" (variant ZeroMaxIter)", 2, 500),
        // the number of components is validated against the data inside fit (errors.rs:12), not by check()
        free("n_components", "linfa-pls/src/errors.rs:12 \"Number of components should be in [1, {upperbound}]\" (data dependent, raised by fit)", vec![(Sym::U(1), "one"), (Sym::U(2), "two")]),
        free("algorithm", "linfa-pls/src/hyperparams.rs:147 enum", vec![(Sym::S("nipals"), "nipals"), (Sym::S("svd"), "svd")]),
        free("scale", "linfa-pls/src/hyperparams.rs:141 bool", vec![(Sym::B(true), "default"), (Sym::B(false), "false")]),
    ]
}

fn pls_err_param(e: &str) -> Option<&'static str> {
    if e.contains("InvalidTolerance") {
        Some("tolerance")
    } else if e.contains("ZeroMaxIter") {
        Some("max_iter")
    } else {
        None
    }
}

macro_rules! pls_builder {
    ($spec:ident, $run:ident, $name:expr, $ty:ident) => {
        pub fn $spec() -> BuilderSpec {
            BuilderSpec {
                name: $name,
                floats: &["f64", "f32"],
                params: pls_params(),
                relation: no_relation,
                err_param: pls_err_param,
                run: |c, s, o| if c.float == "f32" { $run::<f32>(c, s, o) } else { $run::<f64>(c, s, o) },
            }
        }
        fn $run<F: Float>(case: &Case, spec: &BuilderSpec, out: &mut Outcome) {
            let x3 = Array2::from_shape_fn((8, 3), |(i, j)| if j < 2 { F::cast(X[i][j]) } else { F::cast(((i * 7) % 5) as f64 * 0.5) });
            let y2 = Array2::from_shape_fn((8, 2), |(i, j)| if j == 0 { F::cast(X[i][0] + 0.5 * X[i][1]) } else { F::cast(((i * 3) % 4) as f64 - X[i][1]) });
            let ds = Dataset::new(x3, y2);
            let base = || $ty::<F>::params(case.u("n_components") as usize);
            let set = setter(&base, |mut p, c| { if c.moved(&["tolerance"]) { p = p.tolerance(F::cast(c.f("tolerance"))); } if c.moved(&["max_iter"]) { p = p.max_iterations(c.u("max_iter") as usize); } if c.moved(&["algorithm"]) { p = p.algorithm(if c.s("algorithm") == "svd" { Algorithm::Svd } else { Algorithm::Nipals }); } p });
            let set = setter(&base, |p, c| {
                let p = set(p, c);
                if c.moved(&["scale"]) {
                    p.scale(c.b("scale"))
                } else {
                    p
                }
            });
            let make = || set(base(), case);
            let ops = vec![op(
                &make,
                "fit",
                |p| p.fit(&ds).map(|m| dbg(&m)).map_err(|e: PlsError| dbg(&e)),
                |p| p.fit(&ds).map(|m| dbg(&m)).map_err(|e: PlsError| dbg(&e)),
                |e| dbg(&e),
            )];
            // the PLS builders implement neither Debug nor PartialEq: no snapshot
            judge(case, spec, &base, &set, None, &[], &|_| String::new(), &|_| String::new(), ops, out);
        }
    };
}
pls_builder!(pls_regression_spec, pls_regression, "pls_regression", PlsRegression);
pls_builder!(pls_canonical_spec, pls_canonical, "pls_canonical", PlsCanonical);
pls_builder!(pls_cca_spec, pls_cca, "pls_cca", PlsCca);

// ------------------------------------------------------------------------------------------
// t-SNE
// ------------------------------------------------------------------------------------------
pub fn tsne_spec() -> BuilderSpec {
    BuilderSpec {
        name: "tsne",
        floats: &["f64", "f32"],
        params: vec![
            Param {
                name: "perplexity",
                // only the error text documents a range; a perplexity of (-)0 is consistency-only
                src: "linfa-tsne/src/error.rs:9 \"negative perplexity\" (sign test, hyperparams.rs:148)",
                vals: vec![
                    (Sym::L(-1e10), "far_below", I, false),
                    (Sym::NegTiny, "just_below", I, false),
                    (Sym::NegZero, "neg_zero", U, false),
                    (Sym::L(0.0), "zero", U, false),
                    (Sym::Tiny, "just_inside", V, false),
                    (Sym::L(1.0), "inside", V, false),
                    (Sym::L(2.5), "far_inside", V, false),
                ],
            },
            Param {
                name: "approx_threshold",
                // rustdoc: "This threshold lies in range (0, inf) where a value of 0 disables approximation":
                // the sentence contradicts itself about 0 -> consistency-only
                src: "linfa-tsne/src/hyperparams.rs:108 \"lies in range (0, inf) where a value of 0 disables approximation\"; error.rs:13 \"negative approximation threshold\"",
                vals: vec![
                    (Sym::L(-1e10), "far_below", I, false),
                    (Sym::NegTiny, "just_below", I, false),
                    (Sym::NegZero, "neg_zero", U, false),
                    (Sym::L(0.0), "zero", U, false),
                    (Sym::Tiny, "just_inside", V, false),
                    (Sym::L(0.5), "inside", V, false),
                    (Sym::L(1e10), "far_inside", V, false),
                    (Sym::Max, "max_finite", V, true),
                ],
            },
            free("max_iter", "linfa-tsne/src/hyperparams.rs:123 no documented range", vec![(Sym::U(0), "zero"), (Sym::U(20), "small")]),
            free("preliminary_iter", "linfa-tsne/src/hyperparams.rs:130 optional, no documented range (constructor-time choice of the point: the setter cannot unset it)", vec![(Sym::OptU(None), "unset"), (Sym::OptU(Some(5)), "five")]),
        ],
        relation: no_relation,
        err_param: |e| {
            if e.contains("NegativePerplexity") {
                Some("perplexity")
            } else if e.contains("NegativeApproximationThreshold") {
                Some("approx_threshold")
            } else {
                None
            }
        },
        run: |c, s, o| if c.float == "f32" { tsne::<f32>(c, s, o) } else { tsne::<f64>(c, s, o) },
    }
}

fn tsne<F: Float>(case: &Case, spec: &BuilderSpec, out: &mut Outcome) {
    let data = Array2::from_shape_fn((10, 3), |(i, j)| F::cast(((i * (j + 2) * 7) % 11) as f64 * 0.25 + if i >= 5 { 4.0 } else { 0.0 }));
    let base = || {
        let p = TSneParams::<F, _>::embedding_size_with_rng(2, Xoshiro256Plus::seed_from_u64(42));
        match case.ou("preliminary_iter") {
            Some(n) => p.preliminary_iter(n as usize),
            None => p,
        }
    };
    let set = setter(&base, |mut p, c| { if c.moved(&["perplexity"]) { p = p.perplexity(F::cast(c.f("perplexity"))); } if c.moved(&["approx_threshold"]) { p = p.approx_threshold(F::cast(c.f("approx_threshold"))); } if c.moved(&["max_iter"]) { p = p.max_iter(c.u("max_iter") as usize); } p });
    let make = || set(base(), case);
    // t-SNE implements Transformer on the unchecked builder itself (linfa-tsne/src/lib.rs:62), both forms
    // return Result<_, TSneError>
    let ops = vec![
        op(
            &make,
            "transform",
            |p| p.transform(data.clone()).map(|m| dbg(&m)).map_err(|e| dbg(&e)),
            |p| p.transform(data.clone()).map(|m| dbg(&m)).map_err(|e| dbg(&e)),
            |e| dbg(&e),
        ),
        // dataset form (hand-written forwarder on the unchecked builder, linfa-tsne/src/lib.rs:85): the WHOLE
        // result is compared - embedding, targets, sample weights, feature names, target names
        op(
            &make,
            "transform_dataset",
            |p| p.transform(crate::b_cluster::rich(data.clone())).map(|m| ds_print(dbg(m.records()), &m, dbg(m.targets()))).map_err(|e| dbg(&e)),
            |p| p.transform(crate::b_cluster::rich(data.clone())).map(|m| ds_print(dbg(m.records()), &m, dbg(m.targets()))).map_err(|e| dbg(&e)),
            |e| dbg(&e),
        ),
    ];
    judge(case, spec, &base, &set, Some(&|p| p.clone()), &[], &|p| dbg(p), &|c| dbg(c), ops, out);
}

// ------------------------------------------------------------------------------------------
// FastICA
// ------------------------------------------------------------------------------------------
pub fn ica_spec() -> BuilderSpec {
    BuilderSpec {
        name: "fast_ica",
        floats: &["f64", "f32"],
        params: vec![
            loose0("tol", "linfa-ica/src/error.rs:19 \"tolerance should be positive\"", 1e-4, 1e10),
            free("max_iter", "linfa-ica/src/hyperparams.rs:82 no documented range", vec![(Sym::U(0), "zero"), (Sym::U(1), "one"), (Sym::U(200), "default")]),
            // validated against the data inside fit (fast_ica.rs:49), not by check()
            free("ncomponents", "linfa-ica/src/fast_ica.rs:31 data dependent, raised by fit", vec![(Sym::OptU(None), "unset"), (Sym::OptU(Some(1)), "one"), (Sym::OptU(Some(2)), "two"), (Sym::OptU(Some(100)), "too_many")]),
        ],
        relation: no_relation,
        err_param: |e| if e.contains("InvalidTolerance") { Some("tol") } else { None },
        run: |c, s, o| if c.float == "f32" { ica::<f32>(c, s, o) } else { ica::<f64>(c, s, o) },
    }
}

fn ica<F: Float>(case: &Case, spec: &BuilderSpec, out: &mut Outcome) {
    let ds = DatasetBase::from(xmat::<F>());
    // ncomponents has no "unset" setter: it stays a constructor-time choice of the point
    let base = || match case.ou("ncomponents") {
        Some(n) => FastIca::<F>::params().random_state(42).ncomponents(n as usize),
        None => FastIca::<F>::params().random_state(42),
    };
    let set = setter(&base, |mut p, c| { if c.moved(&["tol"]) { p = p.tol(F::cast(c.f("tol"))); } if c.moved(&["max_iter"]) { p = p.max_iter(c.u("max_iter") as usize); } p });
    let make = || set(base(), case);
    let ops = vec![op(
        &make,
        "fit",
        |p| p.fit(&ds).map(|m| dbg(&m)).map_err(|e: linfa_ica::error::FastIcaError| dbg(&e)),
        |p| p.fit(&ds).map(|m| dbg(&m)).map_err(|e: linfa_ica::error::FastIcaError| dbg(&e)),
        |e| dbg(&e),
    )];
    judge(case, spec, &base, &set, Some(&|p| p.clone()), &[], &|p| dbg(p), &|c| dbg(c), ops, out);
}

// ------------------------------------------------------------------------------------------
// diffusion map
// ------------------------------------------------------------------------------------------
pub fn diffusion_map_spec() -> BuilderSpec {
    BuilderSpec {
        name: "diffusion_map",
        floats: &["f64", "f32"],
        params: vec![
            count_ge1("steps", "linfa-reduction/src/error.rs:12 \"Number of steps zero in diffusion map operator\"", 2, 10),
            Param {
                name: "embedding_size",
                src: "linfa-reduction/src/error.rs:10 EmbeddingTooSmall (guard diffusion_map/hyperparams.rs:91: embedding_size == 0)",
                vals: vec![(Sym::U(0), "zero", I, false), (Sym::U(1), "at_lower", V, false), (Sym::U(2), "inside", V, false), (Sym::U(4), "far_inside", V, false)],
            },
        ],
        relation: no_relation,
        err_param: |e| {
            if e.contains("StepsZero") {
                Some("steps")
            } else if e.contains("EmbeddingTooSmall") {
                Some("embedding_size")
            } else {
                None
            }
        },
        run: |c, s, o| if c.float == "f32" { dmap::<f32>(c, s, o) } else { dmap::<f64>(c, s, o) },
    }
}

fn dmap<F: Float>(case: &Case, spec: &BuilderSpec, out: &mut Outcome) {
    let data = xmat::<F>();
    let kernel = Kernel::params().method(KernelMethod::Gaussian(F::cast(3.0))).transform(data.view());
    let base = || DiffusionMap::<F>::params(2);
    let set = setter(&base, |mut p, c| { if c.moved(&["embedding_size"]) { p = p.embedding_size(c.u("embedding_size") as usize); } if c.moved(&["steps"]) { p = p.steps(c.u("steps") as usize); } p });
    let make = || set(base(), case);
    let show = |m: &DiffusionMap<F>| format!("eigvals={:?} embedding={:?}", m.eigvals(), m.embedding());
    let ops = vec![op(&make, "transform", |p| p.transform(&kernel).map(|m| show(&m)).map_err(|e| dbg(&e)), |p| Ok(show(&p.transform(&kernel))), |e| dbg(&e))];
    judge(case, spec, &base, &set, Some(&|p| p.clone()), &[], &|p| dbg(p), &|c| dbg(c), ops, out);
}

// ------------------------------------------------------------------------------------------
// random projection
// ------------------------------------------------------------------------------------------
fn rp_params() -> Vec<Param> {
    vec![
        free("mode", "linfa-reduction/src/random_projection/hyperparams.rs:28-46 the setter called last wins", vec![(Sym::S("target_dim"), "target_dim"), (Sym::S("eps"), "eps")]),
        Param {
            name: "target_dim",
            src: "linfa-reduction/src/error.rs:25 \"Target dimension of the projection must be positive\"",
            vals: vec![(Sym::U(0), "zero", I, false), (Sym::U(1), "at_lower", V, false), (Sym::U(5), "inside", V, false), (Sym::U(1000), "far_inside", V, false)],
        },
        Param {
            name: "eps",
            src: "linfa-reduction/src/error.rs:23 \"Precision parameter must be in the interval (0; 1)\"",
            vals: vec![
                (Sym::L(-1e10), "far_below", I, false),
                (Sym::NegTiny, "just_below", I, false),
                (Sym::NegZero, "neg_zero", I, false),
                (Sym::L(0.0), "at_lower_excluded", I, false),
                (Sym::Tiny, "just_inside", V, false),
                (Sym::L(0.9), "inside", V, false),
                (Sym::OneBelow, "just_below_upper", V, false),
                (Sym::L(1.0), "at_upper_excluded", I, false),
                (Sym::OneAbove, "just_above_upper", I, false),
                (Sym::L(1e10), "far_above", I, false),
            ],
        },
    ]
}

/// only the parameter selected by `mode` is part of the parameter set (the other setter's value was
/// overwritten): mark the shadowed one valid
fn rp_effective(case: &Case) -> Case {
    let mut c = case.clone();
    let shadowed = if case.s("mode") == "eps" { "target_dim" } else { "eps" };
    for p in c.vals.iter_mut() {
        if p.name == shadowed {
            p.doc = Doc::Valid;
            if !p.class.ends_with("(shadowed)") {
                p.class = format!("{}(shadowed)", p.class);
            }
        }
    }
    c
}

macro_rules! rp_builder {
    ($spec:ident, $run:ident, $name:expr, $ty:ident) => {
        pub fn $spec() -> BuilderSpec {
            BuilderSpec {
                name: $name,
                // eps is an f64 whatever the element type (hyperparams.rs:42); the data type varies
                floats: &["f64"],
                params: rp_params(),
                relation: no_relation,
                err_param: |e| {
                    if e.contains("NonPositiveEmbeddingSize") {
                        Some("target_dim")
                    } else if e.contains("InvalidPrecision") {
                        Some("eps")
                    } else {
                        None
                    }
                },
                run: |c, s, o| $run(c, s, o),
            }
        }
        fn $run(case0: &Case, spec: &BuilderSpec, out: &mut Outcome) {
            let case = &rp_effective(case0);
            let data = Array2::from_shape_fn((4, 60), |(i, j)| ((i * 13 + j * 7) % 17) as f64 * 0.125);
            let ds = DatasetBase::from(data.clone());
            let base = || $ty::<f64>::params_with_rng(Xoshiro256Plus::seed_from_u64(42));
            let set = setter(&base, |p, c| {
                if !c.moved(&["mode", "target_dim", "eps"]) {
                    return p;
                }
                if c.s("mode") == "eps" {
                    p.target_dim(c.u("target_dim") as usize).eps(c.f("eps"))
                } else {
                    p.eps(c.f("eps")).target_dim(c.u("target_dim") as usize)
                }
            });
            let make = || set(base(), case);
            let ops = vec![op(
                &make,
                "fit",
                |p| p.fit(&ds).map(|m| dbg(&m.transform(&data))).map_err(|e: ReductionError| dbg(&e)),
                |p| p.fit(&ds).map(|m| dbg(&m.transform(&data))).map_err(|e: ReductionError| dbg(&e)),
                |e| dbg(&e),
            )];
            // RandomProjectionParams implements neither Debug nor PartialEq: no snapshot of the unchecked builder
            let rb_rng = setter(&base, |p, _c| p.with_rng(Xoshiro256Plus::seed_from_u64(42)));
            judge(case, spec, &base, &set, None, &[("with_rng", &rb_rng)], &|_| String::new(), &|c| format!("target_dim={:?} eps={:?}", c.target_dim(), c.eps()), ops, out);
        }
    };
}
rp_builder!(gaussian_rp_spec, gaussian_rp, "gaussian_random_projection", GaussianRandomProjection);
rp_builder!(sparse_rp_spec, sparse_rp, "sparse_random_projection", SparseRandomProjection);

// ------------------------------------------------------------------------------------------
// Platt scaling
// ------------------------------------------------------------------------------------------
#[derive(Debug, Clone, PartialEq)]
pub struct FirstColumn;
impl<F: Float> PredictInplace<Array2<F>, Array1<F>> for FirstColumn {
    fn predict_inplace(&self, x: &Array2<F>, y: &mut Array1<F>) {
        for (o, r) in y.iter_mut().zip(x.rows()) {
            *o = r[0] - F::cast(3.0);
        }
    }
    fn default_target(&self, x: &Array2<F>) -> Array1<F> {
        Array1::zeros(x.nrows())
    }
}

pub fn platt_spec() -> BuilderSpec {
    BuilderSpec {
        name: "platt",
        floats: &["f64", "f32"],
        params: vec![
            count_ge1("maxiter", "linfa/src/composing/platt_scaling.rs:142 \"maxiter should be larger than zero\" (variant MaxIterZero)", 2, 100),
            // "should be positive"; minstep = 0 / sigma = 0 are accepted by the guard: consistency-only
            Param {
                name: "minstep",
                src: "linfa/src/composing/platt_scaling.rs:144 \"minstep should be positive\" (sign test :111)",
                vals: vec![
                    (Sym::L(-1e10), "far_below", I, false),
                    (Sym::NegTiny, "just_below", I, false),
                    (Sym::NegZero, "neg_zero", U, false),
                    // minstep = 0 passes the guard, but then the halving line search `while stepsize >= minstep`
                    // (platt_scaling.rs:322) can only end when a step is accepted: with f32 and sigma = 1e10 it
                    // never returns (observed) -> verdict oracles only, no training call
                    (Sym::L(0.0), "zero", U, true),
                    (Sym::Tiny, "just_inside", V, false),
                    (Sym::L(1e-10), "inside", V, false),
                    (Sym::L(10.0), "far_inside", V, false),
                    (Sym::Max, "max_finite", V, true),
                ],
            },
            loose0("sigma", "linfa/src/composing/platt_scaling.rs:146 \"sigma should be positive\" (sign test :115)", 1e-12, 1e10),
        ],
        relation: no_relation,
        err_param: |e| {
            if e.contains("MaxIter") {
                Some("maxiter")
            } else if e.contains("MinStepNegative") {
                Some("minstep")
            } else if e.contains("SigmaNegative") {
                Some("sigma")
            } else {
                None
            }
        },
        run: |c, s, o| if c.float == "f32" { platt::<f32>(c, s, o) } else { platt::<f64>(c, s, o) },
    }
}

fn platt<F: Float>(case: &Case, spec: &BuilderSpec, out: &mut Outcome) {
    let ds = Dataset::new(xmat::<F>(), Array1::from_shape_fn(8, |i| LAB[i] == 1 || i == 2));
    let base = || Platt::<F, FirstColumn>::params();
    let set = setter(&base, |mut p, c| { if c.moved(&["maxiter"]) { p = p.maxiter(c.u("maxiter") as usize); } if c.moved(&["minstep"]) { p = p.minstep(F::cast(c.f("minstep"))); } if c.moved(&["sigma"]) { p = p.sigma(F::cast(c.f("sigma"))); } p });
    let make = || set(base(), case);
    let show = |m: &Platt<F, FirstColumn>| {
        let pr: Array1<Pr> = m.predict(ds.records());
        format!("{:?} predictions={:?}", m, pr)
    };
    let ops = vec![op(
        &make,
        "fit_with",
        |p| p.fit_with(FirstColumn, &ds).map(|m| show(&m)).map_err(|e: PlattError| dbg(&e)),
        |p| p.fit_with(FirstColumn, &ds).map(|m| show(&m)).map_err(|e: PlattError| dbg(&e)),
        |e| dbg(&e),
    )];
    judge(case, spec, &base, &set, Some(&|p| p.clone()), &[], &|p| dbg(p), &|c| dbg(c), ops, out);
    // observation (not demanded by the property statement): maxiter = 0 is reported with the
    // "did not converge" variant although a dedicated MaxIterZero variant exists
    if case.u("maxiter") == 0 {
        if let Err(e) = make().check() {
            if dbg(&e) == "MaxIterReached" {
                out.notes.push("platt maxiter=0 is reported as MaxIterReached (\"platt scaling did not converge\"), the dedicated variant MaxIterZero (\"maxiter should be larger than zero\", platt_scaling.rs:142) is never constructed".to_string());
            }
        }
    }
}

// ------------------------------------------------------------------------------------------
// count vectoriser
// ------------------------------------------------------------------------------------------
fn df_param(name: &'static str) -> Param {
    Param {
        name,
        src: "linfa-preprocessing/src/countgrams/hyperparams.rs:189 \"`min_freq` and `max_freq` must lie in `0..=1`\"; error.rs:24 \"document frequencies have to be between 0 and 1\"; countgrams/mod.rs:219",
        vals: vec![
            (Sym::L(-1e10), "far_below", I, false),
            (Sym::NegTiny, "just_below", I, false),
            (Sym::NegZero, "neg_zero", V, false),
            (Sym::L(0.0), "at_lower", V, false),
            (Sym::Tiny, "just_inside", V, false),
            (Sym::L(0.5), "inside", V, false),
            (Sym::OneBelow, "just_below_upper", V, false),
            (Sym::L(1.0), "at_upper", V, false),
            (Sym::OneAbove, "just_above_upper", I, false),
            (Sym::L(1e10), "far_above", I, false),
        ],
    }
}

fn ngram_param(name: &'static str) -> Param {
    Param {
        name,
        src: "linfa-preprocessing/src/error.rs:20 \"n_gram boundaries cannot be zero\"",
        vals: vec![(Sym::U(0), "zero", I, false), (Sym::U(1), "at_lower", V, false), (Sym::U(2), "inside", V, false), (Sym::U(3), "far_inside", V, false)],
    }
}

pub fn count_vectorizer_spec() -> BuilderSpec {
    BuilderSpec {
        name: "count_vectorizer",
        floats: &["f32"], // document frequencies are f32 (hyperparams.rs:190)
        params: vec![
            ngram_param("n_gram_min"),
            ngram_param("n_gram_max"),
            df_param("min_freq"),
            df_param("max_freq"),
            Param {
                name: "split_regex",
                src: "linfa-preprocessing/src/countgrams/mod.rs:221 \"if the regex expression for the split is invalid\"; error.rs:29 RegexError",
                vals: vec![(Sym::S(r"\b\w\w+\b"), "default", V, false), (Sym::S("("), "unparsable", I, false)],
            },
        ],
        relation: |c| {
            let mut v = Vec::new();
            // hyperparams.rs:176 "`min_n` should not be greater than `max_n`"; error.rs:22
            if c.u("n_gram_min") > c.u("n_gram_max") {
                v.push(("n_gram_min>n_gram_max".to_string(), Doc::Invalid));
            }
            // hyperparams.rs:189 "`min_freq` should not be greater than `max_freq`"; error.rs:26
            if c.f("min_freq") > c.f("max_freq") {
                v.push(("min_freq>max_freq".to_string(), Doc::Invalid));
            }
            v
        },
        err_param: |e| {
            if e.contains("RegexError") || e.contains("Syntax") {
                Some("split_regex")
            } else {
                None // the other errors name pairs
            }
        },
        run: count_vectorizer,
    }
}

/// Debug string with the compiled-regex cache (a RefCell that check_ref fills) masked.
fn mask_regex_cache(s: String) -> String {
    match (s.find("split_regex: "), s.find(", n_gram_range")) {
        (Some(a), Some(b)) if a < b => format!("{}split_regex: <cache>{}", &s[..a], &s[b..]),
        _ => s,
    }
}

fn count_vectorizer(case: &Case, spec: &BuilderSpec, out: &mut Outcome) {
    let docs = ndarray::array!["one two three four", "two three four five", "three four five six seven", "one one one"];
    let base = || CountVectorizer::params();
    let set = setter(&base, |mut p, c| { if c.moved(&["n_gram_min", "n_gram_max"]) { p = p.n_gram_range(c.u("n_gram_min") as usize, c.u("n_gram_max") as usize); } if c.moved(&["min_freq", "max_freq"]) { p = p.document_frequency(c.f("min_freq") as f32, c.f("max_freq") as f32); } if c.moved(&["split_regex"]) { p = p.tokenizer(Tokenizer::Regex(c.s("split_regex").to_string())); } p });
    let make = || set(base(), case);
    let show = |m: &CountVectorizer| {
        let mut v = m.vocabulary().clone();
        v.sort();
        format!("vocabulary={:?}", v)
    };
    // the count vectoriser does not use the Fit trait: its unchecked builder has inherent fit /
    // fit_vocabulary methods that call check_ref first (countgrams/mod.rs:222, 255)
    let ops = vec![
        op(&make, "fit", |p| p.fit(&docs).map(|m| show(&m)).map_err(|e| dbg(&e)), |p| p.fit(&docs).map(|m| show(&m)).map_err(|e| dbg(&e)), |e| dbg(&e)),
        op(
            &make,
            "fit_vocabulary",
            |p| p.fit_vocabulary(&["two", "three", "nine"]).map(|m| show(&m)).map_err(|e| dbg(&e)),
            |p| p.fit_vocabulary(&["two", "three", "nine"]).map(|m| show(&m)).map_err(|e| dbg(&e)),
            |e| dbg(&e),
        ),
    ];
    let rb_tok = setter(&base, |p, c| p.tokenizer(Tokenizer::Regex(c.s("split_regex").to_string())));
    judge(case, spec, &base, &set, Some(&|p| p.clone()), &[("tokenizer", &rb_tok)], &|p| mask_regex_cache(dbg(p)), &|c| mask_regex_cache(dbg(c)), ops, out);
}

// ------------------------------------------------------------------------------------------
// counting mock: the three blanket impls of src/param_guard.rs must not reach the checked
// implementation when check_ref fails ("never trains")
// ------------------------------------------------------------------------------------------
pub static MOCK_TRAININGS: AtomicUsize = AtomicUsize::new(0);
thread_local! {
    static LOCAL_TRAININGS: std::cell::Cell<usize> = const { std::cell::Cell::new(0) };
}

#[derive(Debug, Clone, PartialEq)]
pub struct MockValid {
    level: u64,
}
#[derive(Debug, Clone, PartialEq)]
pub struct MockParams(MockValid);

#[derive(Debug)]
pub enum MockParamError {
    LevelZero,
}
impl std::fmt::Display for MockParamError {
    fn fmt(&self, f: &mut std::fmt::Formatter<'_>) -> std::fmt::Result {
        write!(f, "level cannot be 0")
    }
}
impl std::error::Error for MockParamError {}

#[derive(Debug)]
pub enum MockFitError {
    Params(MockParamError),
    #[allow(dead_code)]
    Base(linfa::Error),
}
impl std::fmt::Display for MockFitError {
    fn fmt(&self, f: &mut std::fmt::Formatter<'_>) -> std::fmt::Result {
        write!(f, "{:?}", self)
    }
}
impl std::error::Error for MockFitError {}
impl From<MockParamError> for MockFitError {
    fn from(e: MockParamError) -> Self {
        MockFitError::Params(e)
    }
}
impl From<linfa::Error> for MockFitError {
    fn from(e: linfa::Error) -> Self {
        MockFitError::Base(e)
    }
}

impl ParamGuard for MockParams {
    type Checked = MockValid;
    type Error = MockParamError;
    fn check_ref(&self) -> Result<&MockValid, MockParamError> {
        if self.0.level == 0 {
            Err(MockParamError::LevelZero)
        } else {
            Ok(&self.0)
        }
    }
    fn check(self) -> Result<MockValid, MockParamError> {
        self.check_ref()?;
        Ok(self.0)
    }
}
impl linfa::param_guard::TransformGuard for MockParams {}

fn trained() {
    MOCK_TRAININGS.fetch_add(1, Ordering::Relaxed);
    LOCAL_TRAININGS.with(|c| c.set(c.get() + 1));
}

impl Fit<Array2<f64>, Array1<f64>, MockFitError> for MockValid {
    type Object = u64;
    fn fit(&self, ds: &DatasetBase<Array2<f64>, Array1<f64>>) -> Result<u64, MockFitError> {
        trained();
        Ok(self.level * 1000 + ds.records().nrows() as u64)
    }
}
impl<'a> FitWith<'a, Array2<f64>, Array1<f64>, MockFitError> for MockValid {
    type ObjectIn = u64;
    type ObjectOut = u64;
    fn fit_with(&self, m: u64, ds: &'a DatasetBase<Array2<f64>, Array1<f64>>) -> Result<u64, MockFitError> {
        trained();
        Ok(m + self.level * 1000 + ds.records().nrows() as u64)
    }
}
impl Transformer<&Array2<f64>, u64> for MockValid {
    fn transform(&self, x: &Array2<f64>) -> u64 {
        trained();
        self.level * 1000 + x.nrows() as u64
    }
}

pub fn mock_spec() -> BuilderSpec {
    BuilderSpec {
        name: "mock_blanket_impls",
        floats: &["f64"],
        params: vec![count_ge1("level", "harness mock (checks/c04/src/b_misc.rs): level cannot be 0", 2, 7)],
        relation: no_relation,
        err_param: |_| Some("level"),
        run: mock,
    }
}

/// runs `f`, returns its result together with the number of trainings it caused on this thread
fn counted<T>(f: impl FnOnce() -> T) -> (T, usize) {
    let before = LOCAL_TRAININGS.with(|c| c.get());
    let r = f();
    (r, LOCAL_TRAININGS.with(|c| c.get()) - before)
}

fn mock(case: &Case, spec: &BuilderSpec, out: &mut Outcome) {
    let ds = Dataset::new(xmat::<f64>(), Array1::from_shape_fn(8, |i| i as f64));
    let base = || MockParams(MockValid { level: 1 });
    let set = setter(&base, |mut p, c| {
        if c.moved(&["level"]) {
            p.0.level = c.u("level");
        }
        p
    });
    let make = || set(base(), case);
    // an Err result that was produced AFTER a training call is reported as Ok("trained ..."), so that
    // the generic judge flags it as trained_on_invalid
    let wrap = |r: Result<u64, String>, n: usize| match r {
        Ok(v) => Ok(format!("model={} trainings={}", v, n)),
        Err(e) if n == 0 => Err(e),
        Err(e) => Ok(format!("trained {} time(s) and then returned Err({})", n, e)),
    };
    let ops = vec![
        op(
            &make,
            "fit",
            |p| {
                let (r, n) = counted(|| p.fit(&ds).map_err(|e: MockFitError| dbg(&e)));
                wrap(r, n)
            },
            |p| {
                let (r, n) = counted(|| p.fit(&ds).map_err(|e: MockFitError| dbg(&e)));
                wrap(r, n)
            },
            |e| dbg(&MockFitError::from(e)),
        ),
        op(
            &make,
            "fit_with",
            |p| {
                let (r, n) = counted(|| p.fit_with(5, &ds).map_err(|e: MockFitError| dbg(&e)));
                wrap(r, n)
            },
            |p| {
                let (r, n) = counted(|| p.fit_with(5, &ds).map_err(|e: MockFitError| dbg(&e)));
                wrap(r, n)
            },
            |e| dbg(&MockFitError::from(e)),
        ),
        op(
            &make,
            "transform",
            |p| {
                let (r, n) = counted(|| p.transform(ds.records()).map_err(|e| dbg(&e)));
                wrap(r, n)
            },
            |p| {
                let (r, n) = counted(|| Ok(p.transform(ds.records())));
                wrap(r, n)
            },
            |e| dbg(&e),
        ),
    ];
    judge(case, spec, &base, &set, Some(&|p| p.clone()), &[], &|p| dbg(p), &|c| dbg(c), ops, out);
}
