//! Builders of linfa-clustering (k-means, DBSCAN, approximated DBSCAN, OPTICS, Gaussian mixture)
//! and linfa-hierarchical.

use crate::fw::*;
use linfa::traits::{Fit, FitWith, Transformer};
use linfa::{DatasetBase, Float};
use linfa_clustering::{Dbscan, GaussianMixtureModel, GmmError, IncrKMeansError, KMeans, KMeansError, Optics};
use linfa_hierarchical::HierarchicalCluster;
use linfa_kernel::{Kernel, KernelMethod};
use linfa_nn::distance::L2Dist;
use ndarray::Array2;
use rand::SeedableRng;
use rand_xoshiro::Xoshiro256Plus;

/// two tight blobs of three points each (tiny valid dataset)
pub fn blobs<F: Float>() -> Array2<F> {
    let raw = [[0.0, 0.0], [0.125, 0.25], [0.25, 0.125], [5.0, 5.0], [5.125, 5.25], [5.25, 5.125]];
    Array2::from_shape_fn((6, 2), |(i, j)| F::cast(raw[i][j]))
}

fn dbg<T: std::fmt::Debug>(x: &T) -> String {
    format!("{:?}", x)
}

// ------------------------------------------------------------------------------------------
// k-means
// ------------------------------------------------------------------------------------------
pub fn kmeans_spec() -> BuilderSpec {
    BuilderSpec {
        name: "kmeans",
        floats: &["f64", "f32"],
        params: vec![
            Param {
                name: "n_clusters",
                src: "linfa-clustering/src/k_means/errors.rs:6 \"n_clusters cannot be 0\"",
                vals: vec![(Sym::U(0), "zero", I, false), (Sym::U(1), "at_lower", V, false), (Sym::U(2), "inside", V, false), (Sym::U(3), "far_inside", V, false)],
            },
            count_ge1("n_runs", "linfa-clustering/src/k_means/errors.rs:8 \"n_runs cannot be 0\"", 2, 10),
            gt0("tolerance", "linfa-clustering/src/k_means/errors.rs:10 \"tolerance must be greater than 0\"", 1e-4, 1e10),
            count_ge1("max_n_iterations", "linfa-clustering/src/k_means/errors.rs:12 \"max_n_iterations cannot be 0\"", 2, 300),
            // free axis: no documented range ties the number of precomputed rows to n_clusters at checking
            // time (k_means/init.rs:25 only describes the shape); KMeansInit::run asserts it during fit
            // (init.rs:52), in both the checked and the unchecked form
            free(
                "init",
                "linfa-clustering/src/k_means/init.rs:22-36 enum KMeansInit (no documented constraint at check time)",
                vec![(Sym::S("kmeans_plusplus"), "default"), (Sym::S("random"), "random"), (Sym::S("kmeans_para"), "kmeans_para"), (Sym::S("precomputed_matching"), "precomputed_rows_eq_n_clusters"), (Sym::S("precomputed_2_rows"), "precomputed_2_rows")],
            ),
        ],
        relation: no_relation,
        err_param: |e| {
            if e.contains("NClusters") {
                Some("n_clusters")
            } else if e.contains("NRuns") {
                Some("n_runs")
            } else if e.contains("Tolerance") {
                Some("tolerance")
            } else if e.contains("MaxIterations") {
                Some("max_n_iterations")
            } else {
                None
            }
        },
        run: |c, s, o| if c.float == "f32" { kmeans::<f32>(c, s, o) } else { kmeans::<f64>(c, s, o) },
    }
}

/// a dataset that carries everything a dataset can carry: targets, sample weights, feature names
pub fn rich<R: linfa::dataset::Records>(records: R) -> DatasetBase<R, ndarray::Array1<usize>> {
    let n = records.nsamples();
    let d = records.nfeatures();
    DatasetBase::new(records, ndarray::Array1::from_shape_fn(n, |i| i % 3))
        .with_weights(ndarray::Array1::from_shape_fn(n, |i| 0.5 + i as f32))
        .with_feature_names((0..d).map(|j| format!("feature_{}", j)).collect::<Vec<_>>())
}

fn nn_of(tag: &str) -> linfa_nn::CommonNearestNeighbour {
    match tag {
        "balltree" => linfa_nn::CommonNearestNeighbour::BallTree,
        "linear" => linfa_nn::CommonNearestNeighbour::LinearSearch,
        _ => linfa_nn::CommonNearestNeighbour::KdTree,
    }
}

fn kmeans_init<F: Float>(tag: &str, n_clusters: usize) -> linfa_clustering::KMeansInit<F> {
    use linfa_clustering::KMeansInit;
    let rows = |n: usize| Array2::from_shape_fn((n, 2), |(i, _)| F::cast(i as f64 * 2.5));
    match tag {
        "random" => KMeansInit::Random,
        "kmeans_para" => KMeansInit::KMeansPara,
        "precomputed_matching" => KMeansInit::Precomputed(rows(n_clusters)),
        "precomputed_2_rows" => KMeansInit::Precomputed(rows(2)),
        _ => KMeansInit::KMeansPlusPlus,
    }
}

fn kmeans<F: Float>(case: &Case, spec: &BuilderSpec, out: &mut Outcome) {
    let ds = rich(blobs::<F>());
    // n_clusters is a constructor argument (no setter): the history keeps it fixed
    let base = || KMeans::<F, L2Dist>::params_with(case.u("n_clusters") as usize, Xoshiro256Plus::seed_from_u64(42), L2Dist);
    let set = |mut p: linfa_clustering::KMeansParams<F, Xoshiro256Plus, L2Dist>, c: &Case| { if c.moved(&["n_runs"]) { p = p.n_runs(c.u("n_runs") as usize); } if c.moved(&["tolerance"]) { p = p.tolerance(F::cast(c.f("tolerance"))); } if c.moved(&["max_n_iterations"]) { p = p.max_n_iterations(c.u("max_n_iterations")); } if c.moved(&["init"]) { p = p.init_method(kmeans_init::<F>(c.s("init"), case.u("n_clusters") as usize)); } p };
    let make = || set(base(), case);
    let ops = vec![
        op(&make, "fit", |p| p.fit(&ds).map(|m| dbg(&m)).map_err(|e: KMeansError| dbg(&e)), |p| p.fit(&ds).map(|m| dbg(&m)).map_err(|e: KMeansError| dbg(&e)), |e| dbg(&KMeansError::InvalidParams(e))),
        op(&make, "fit_with", |p| p.fit_with(None, &ds).map(|m| dbg(&m)).map_err(|e: IncrKMeansError<_>| dbg(&e)), |p| p.fit_with(None, &ds).map(|m| dbg(&m)).map_err(|e: IncrKMeansError<_>| dbg(&e)), |e| dbg(&IncrKMeansError::<KMeans<F, L2Dist>>::InvalidParams(e))),
    ];
    let rb_init = |p: linfa_clustering::KMeansParams<F, Xoshiro256Plus, L2Dist>, c: &Case| p.init_method(kmeans_init::<F>(c.s("init"), case.u("n_clusters") as usize));
    judge(case, spec, &base, &set, Some(&|p| p.clone()), &[("init_method", &rb_init)], &|p| dbg(p), &|c| dbg(c), ops, out);
}

// ------------------------------------------------------------------------------------------
// DBSCAN / OPTICS (AppxDbscan is a type alias of DBSCAN: linfa-clustering/src/lib.rs:38)
// ------------------------------------------------------------------------------------------
pub fn dbscan_spec() -> BuilderSpec {
    BuilderSpec {
        name: "dbscan",
        floats: &["f64", "f32"],
        params: vec![
            count_ge2("min_points", "linfa-clustering/src/dbscan/hyperparams.rs:28 \"min_points must be greater than 1\"", 3, 100),
            gt0("tolerance", "linfa-clustering/src/dbscan/hyperparams.rs:30 \"tolerance must be greater than 0\"", 0.5, 1e10),
            free("nn_algo", "linfa-nn/src/lib.rs enum CommonNearestNeighbour (neighbour index used for the range queries)", vec![(Sym::S("kdtree"), "default"), (Sym::S("balltree"), "balltree"), (Sym::S("linear"), "linear")]),
        ],
        relation: no_relation,
        err_param: |e| {
            if e.contains("MinPoints") {
                Some("min_points")
            } else if e.contains("Tolerance") {
                Some("tolerance")
            } else {
                None
            }
        },
        run: |c, s, o| if c.float == "f32" { dbscan::<f32>(c, s, o) } else { dbscan::<f64>(c, s, o) },
    }
}

fn dbscan<F: Float>(case: &Case, spec: &BuilderSpec, out: &mut Outcome) {
    let data = blobs::<F>();
    let base = || Dbscan::params::<F>(case.u("min_points") as usize);
    let set = |mut p: linfa_clustering::DbscanParams<F, L2Dist, linfa_nn::CommonNearestNeighbour>, c: &Case| { if c.moved(&["tolerance"]) { p = p.tolerance(F::cast(c.f("tolerance"))); } if c.moved(&["nn_algo"]) { p = p.nn_algo(nn_of(c.s("nn_algo"))); } p };
    let make = || set(base(), case);
    let ops = vec![
        op(&make, "transform", |p| p.transform(&data).map(|m| dbg(&m)).map_err(|e| dbg(&e)), |p| Ok(dbg(&p.transform(&data))), |e| dbg(&e)),
        op(&make, "transform_dataset", |p| p.transform(rich(data.clone())).map(|m| ds_print(dbg(m.records()), &m, dbg(m.targets()))).map_err(|e| dbg(&e)), |p| { let m = p.transform(rich(data.clone())); Ok(ds_print(dbg(m.records()), &m, dbg(m.targets()))) }, |e| dbg(&e)),
    ];
    let rb_dist = |p: linfa_clustering::DbscanParams<F, L2Dist, linfa_nn::CommonNearestNeighbour>, _c: &Case| p.dist_fn(L2Dist);
    let rb_nn = |p: linfa_clustering::DbscanParams<F, L2Dist, linfa_nn::CommonNearestNeighbour>, c: &Case| p.nn_algo(nn_of(c.s("nn_algo")));
    judge(case, spec, &base, &set, Some(&|p| p.clone()), &[("dist_fn", &rb_dist), ("nn_algo", &rb_nn)], &|p| dbg(p), &|c| dbg(c), ops, out);
}

pub fn optics_spec() -> BuilderSpec {
    BuilderSpec {
        name: "optics",
        floats: &["f64", "f32"],
        params: vec![
            count_ge2("min_points", "linfa-clustering/src/optics/hyperparams.rs:102 \"`min_points` must be greater than 1!\"", 3, 100),
            gt0("tolerance", "linfa-clustering/src/optics/hyperparams.rs:97 \"`tolerance` must be greater than 0!\"", 0.5, 1e10),
            free("nn_algo", "linfa-nn/src/lib.rs enum CommonNearestNeighbour (neighbour index used for the range queries)", vec![(Sym::S("kdtree"), "default"), (Sym::S("balltree"), "balltree"), (Sym::S("linear"), "linear")]),
        ],
        relation: no_relation,
        err_param: |e| {
            if e.contains("min_points") {
                Some("min_points")
            } else if e.contains("tolerance") {
                Some("tolerance")
            } else {
                None
            }
        },
        run: |c, s, o| if c.float == "f32" { optics::<f32>(c, s, o) } else { optics::<f64>(c, s, o) },
    }
}

fn optics<F: Float>(case: &Case, spec: &BuilderSpec, out: &mut Outcome) {
    let data = blobs::<F>();
    let base = || Optics::params::<F>(case.u("min_points") as usize);
    let set = |mut p: linfa_clustering::OpticsParams<F, L2Dist, linfa_nn::CommonNearestNeighbour>, c: &Case| { if c.moved(&["tolerance"]) { p = p.tolerance(F::cast(c.f("tolerance"))); } if c.moved(&["nn_algo"]) { p = p.nn_algo(nn_of(c.s("nn_algo"))); } p };
    let make = || set(base(), case);
    let ops = vec![op(&make, "transform", |p| p.transform(data.view()).map(|m| dbg(&m)).map_err(|e| dbg(&e)), |p| Ok(dbg(&p.transform(data.view()))), |e| dbg(&e))];
    let rb_dist = |p: linfa_clustering::OpticsParams<F, L2Dist, linfa_nn::CommonNearestNeighbour>, _c: &Case| p.dist_fn(L2Dist);
    let rb_nn = |p: linfa_clustering::OpticsParams<F, L2Dist, linfa_nn::CommonNearestNeighbour>, c: &Case| p.nn_algo(nn_of(c.s("nn_algo")));
    judge(case, spec, &base, &set, Some(&|p| p.clone()), &[("dist_fn", &rb_dist), ("nn_algo", &rb_nn)], &|p| dbg(p), &|c| dbg(c), ops, out);
}

// ------------------------------------------------------------------------------------------
// Gaussian mixture
// ------------------------------------------------------------------------------------------
pub fn gmm_spec() -> BuilderSpec {
    BuilderSpec {
        name: "gmm",
        floats: &["f64", "f32"],
        params: vec![
            Param {
                name: "n_clusters",
                src: "linfa-clustering/src/gaussian_mixture/hyperparams.rs:176 \"`n_clusters` cannot be 0!\"",
                vals: vec![(Sym::U(0), "zero", I, false), (Sym::U(1), "at_lower", V, false), (Sym::U(2), "inside", V, false)],
            },
            gt0("tolerance", "linfa-clustering/src/gaussian_mixture/hyperparams.rs:180 \"`tolerance` must be greater than 0!\"", 1e-3, 1e10),
            // setter rustdoc (hyperparams.rs:130) says "Non-negative regularization", the error text
            // (hyperparams.rs:184) says "`reg_covar` must be positive!", the tests at
            // gaussian_mixture/algorithm.rs:635,661 fit with reg_covariance(0.) -> zero is consistency-only
            loose0("reg_covar", "linfa-clustering/src/gaussian_mixture/hyperparams.rs:130 \"Non-negative regularization\" vs :184 \"`reg_covar` must be positive!\"", 1e-6, 1e3),
            Param {
                name: "n_runs",
                src: "linfa-clustering/src/gaussian_mixture/hyperparams.rs:187 \"`n_runs` cannot be 0!\"",
                vals: vec![(Sym::U(0), "zero", I, false), (Sym::U(1), "at_lower", V, false), (Sym::U(2), "inside", V, false)],
            },
            count_ge1("max_n_iterations", "linfa-clustering/src/gaussian_mixture/hyperparams.rs:190 \"`max_n_iterations` cannot be 0!\"", 2, 100),
            free("init_method", "linfa-clustering/src/gaussian_mixture/hyperparams.rs:28 enum GmmInitMethod", vec![(Sym::S("kmeans"), "default"), (Sym::S("random"), "random")]),
        ],
        relation: no_relation,
        err_param: |e| {
            for p in ["n_clusters", "tolerance", "reg_covar", "n_runs", "max_n_iterations"] {
                if e.contains(&format!("`{}`", p)) {
                    return Some(p);
                }
            }
            None
        },
        run: |c, s, o| if c.float == "f32" { gmm::<f32>(c, s, o) } else { gmm::<f64>(c, s, o) },
    }
}

fn gmm<F: Float>(case: &Case, spec: &BuilderSpec, out: &mut Outcome) {
    let ds = DatasetBase::from(blobs::<F>());
    let base = || GaussianMixtureModel::<F>::params(case.u("n_clusters") as usize);
    let set = |mut p: linfa_clustering::GmmParams<F, Xoshiro256Plus>, c: &Case| { if c.moved(&["tolerance"]) { p = p.tolerance(F::cast(c.f("tolerance"))); } if c.moved(&["reg_covar"]) { p = p.reg_covariance(F::cast(c.f("reg_covar"))); } if c.moved(&["n_runs"]) { p = p.n_runs(c.u("n_runs")); } if c.moved(&["max_n_iterations"]) { p = p.max_n_iterations(c.u("max_n_iterations")); } if c.moved(&["init_method"]) { p = p.init_method(if c.s("init_method") == "random" { linfa_clustering::GmmInitMethod::Random } else { linfa_clustering::GmmInitMethod::KMeans }); } p };
    let make = || set(base(), case);
    let ops = vec![op(&make, "fit", |p| p.fit(&ds).map(|m| dbg(&m)).map_err(|e: GmmError| dbg(&e)), |p| p.fit(&ds).map(|m| dbg(&m)).map_err(|e: GmmError| dbg(&e)), |e| dbg(&e))];
    let rb_rng = |p: linfa_clustering::GmmParams<F, Xoshiro256Plus>, _c: &Case| p.with_rng(Xoshiro256Plus::seed_from_u64(42));
    let rb_init = |p: linfa_clustering::GmmParams<F, Xoshiro256Plus>, c: &Case| p.init_method(if c.s("init_method") == "random" { linfa_clustering::GmmInitMethod::Random } else { linfa_clustering::GmmInitMethod::KMeans });
    let rb_cov = |p: linfa_clustering::GmmParams<F, Xoshiro256Plus>, _c: &Case| p.covariance_type(linfa_clustering::GmmCovarType::Full);
    judge(case, spec, &base, &set, Some(&|p| p.clone()), &[("with_rng", &rb_rng), ("init_method", &rb_init), ("covariance_type", &rb_cov)], &|p| dbg(p), &|c| dbg(c), ops, out);
}

// ------------------------------------------------------------------------------------------
// hierarchical clustering
// ------------------------------------------------------------------------------------------
pub fn hierarchical_spec() -> BuilderSpec {
    BuilderSpec {
        name: "hierarchical",
        floats: &["f64", "f32"],
        params: vec![
            // no rustdoc range; the only documentation is the guard itself and its error
            // "The stopping condition {0:?} is not valid" (linfa-hierarchical/src/error.rs:14)
            Param {
                name: "num_clusters",
                src: "linfa-hierarchical/src/lib.rs:68 Criterion::NumClusters(0) -> InvalidStoppingCondition (guard only, no rustdoc range)",
                vals: vec![
                    (Sym::OptU(None), "unset", V, false),
                    (Sym::OptU(Some(0)), "zero", I, false),
                    (Sym::OptU(Some(1)), "at_lower", V, false),
                    (Sym::OptU(Some(2)), "inside", V, false),
                    (Sym::OptU(Some(100)), "far_inside", V, false),
                ],
            },
            Param {
                name: "max_distance",
                src: "linfa-hierarchical/src/lib.rs:71 Criterion::Distance(x) negative -> InvalidStoppingCondition (guard only, no rustdoc range; sign test)",
                vals: vec![
                    (Sym::OptL(None), "unset", V, false),
                    (Sym::OptL(Some(-1e10)), "far_below", I, false),
                    (Sym::OptNegTiny, "just_below", I, false),
                    (Sym::OptL(Some(-0.0)), "neg_zero", U, false),
                    (Sym::OptL(Some(0.0)), "zero", U, false),
                    (Sym::OptL(Some(0.1)), "inside", V, false),
                    (Sym::OptL(Some(1e10)), "far_inside", V, false),
                ],
            },
            free("order", "which setter is called last (the last one wins, lib.rs:96-108)", vec![(Sym::S("clusters_then_distance"), "cd"), (Sym::S("distance_then_clusters"), "dc")]),
        ],
        // only the criterion set last is part of the parameters
        relation: no_relation,
        err_param: |_| None,
        run: |c, s, o| if c.float == "f32" { hierarchical::<f32>(c, s, o) } else { hierarchical::<f64>(c, s, o) },
    }
}

/// Because the two setters overwrite each other, only the effective criterion counts for the
/// documented verdict: returns the case with the shadowed parameter marked valid.
pub fn hierarchical_effective(case: &Case) -> Case {
    let mut c = case.clone();
    let nc = case.ou("num_clusters");
    let md = case.of("max_distance");
    let last_is_distance = case.s("order") == "clusters_then_distance";
    let effective_distance = match (nc, md) {
        (_, None) => false,
        (None, Some(_)) => true,
        (Some(_), Some(_)) => last_is_distance,
    };
    for p in c.vals.iter_mut() {
        if (p.name == "num_clusters" && (effective_distance || nc.is_none())) || (p.name == "max_distance" && !effective_distance) {
            p.doc = Doc::Valid;
            if p.class != "unset" && !p.class.ends_with("(shadowed)") {
                p.class = format!("{}(shadowed)", p.class);
            }
        }
    }
    c
}

fn canon_partition(t: &[usize]) -> Vec<usize> {
    let mut map: Vec<(usize, usize)> = Vec::new();
    t.iter()
        .map(|x| match map.iter().find(|(a, _)| a == x) {
            Some((_, b)) => *b,
            None => {
                map.push((*x, map.len()));
                map.len() - 1
            }
        })
        .collect()
}

fn hierarchical<F: Float>(case0: &Case, spec: &BuilderSpec, out: &mut Outcome) {
    let case = &hierarchical_effective(case0);
    let data = blobs::<F>();
    let kernel = || Kernel::params().method(KernelMethod::Gaussian(F::cast(5.0))).transform(data.view());
    let base = || HierarchicalCluster::<F>::default();
    let set = |mut p: HierarchicalCluster<F>, case: &Case| {
        if !case.moved(&["num_clusters", "max_distance", "order"]) {
            return p;
        }
        let nc = case.ou("num_clusters");
        let md = case.of("max_distance");
        if case.s("order") == "clusters_then_distance" {
            if let Some(n) = nc {
                p = p.num_clusters(n as usize);
            }
            if let Some(d) = md {
                p = p.max_distance(F::cast(d));
            }
        } else {
            if let Some(d) = md {
                p = p.max_distance(F::cast(d));
            }
            if let Some(n) = nc {
                p = p.num_clusters(n as usize);
            }
        }
        p
    };
    let make = || set(base(), case);
    let ops_ds = op(
        &make,
        "transform_dataset",
        |p| p.transform(rich(kernel())).map(|m| ds_print_plain("<kernel>".into(), &m, dbg(&canon_partition(m.targets())))).map_err(|e| dbg(&e)),
        |p| {
            let m = p.transform(rich(kernel()));
            Ok(ds_print_plain("<kernel>".into(), &m, dbg(&canon_partition(m.targets()))))
        },
        |e| dbg(&e),
    );
    let mut ops = vec![op(&make, "transform", |p| p.transform(kernel()).map(|m| dbg(&canon_partition(m.targets()))).map_err(|e| dbg(&e)), |p| Ok(dbg(&canon_partition(p.transform(kernel()).targets()))), |e| dbg(&e))];
    ops.push(ops_ds);
    let rb_method = |p: HierarchicalCluster<F>, _c: &Case| p.with_method(linfa_hierarchical::Method::Average);
    judge(case, spec, &base, &set, Some(&|p| p.clone()), &[("with_method", &rb_method)], &|p| dbg(p), &|c| dbg(c), ops, out);
}
