//! Builders of linfa-svm: C- and nu-classification (bool and Pr targets), eps- and nu-regression.

use crate::fw::*;
use linfa::dataset::Pr;
use linfa::traits::Fit;
use linfa::{Dataset, Float, Platt};
use linfa_svm::{Svm, SvmError, SvmParams};
use ndarray::{Array1, Array2};

fn dbg<T: std::fmt::Debug>(x: &T) -> String {
    format!("{:?}", x)
}

const X: [[f64; 2]; 8] = [[0.0, 1.0], [1.0, 0.5], [2.0, 2.0], [1.5, 0.0], [4.0, 3.5], [5.0, 3.0], [6.0, 4.0], [5.5, 2.5]];
const LAB: [bool; 8] = [false, false, false, false, true, true, true, true];
const Y: [f64; 8] = [1.0, 2.25, 5.0, 4.5, 9.0, 7.5, 12.5, 11.0];

fn xmat<F: Float>() -> Array2<F> {
    Array2::from_shape_fn((8, 2), |(i, j)| F::cast(X[i][j]))
}

fn eps_param() -> Param {
    Param {
        name: "eps",
        // no range in the setter rustdoc (hyperparams.rs:93-96); the only documentation is the error
        // "Invalid epsilon {0}" (error.rs:7) raised by the sign / NaN / inf test (hyperparams.rs:225)
        src: "linfa-svm/src/error.rs:7 \"Invalid epsilon\" + hyperparams.rs:225 sign test (no rustdoc range: zero is consistency-only)",
        vals: vec![
            (Sym::L(-1e10), "far_below", I, false),
            (Sym::NegTiny, "just_below", I, false),
            (Sym::NegZero, "neg_zero", U, false),
            // eps = 0 / denormal: the SMO loop can only stop at its 10^7 iteration cap -> no training call
            (Sym::L(0.0), "zero", U, true),
            (Sym::Tiny, "just_inside", V, true),
            (Sym::L(1e-3), "inside", V, false),
            (Sym::L(1e10), "far_inside", V, false),
            (Sym::Max, "max_finite", V, true),
        ],
    }
}

fn c_param(name: &'static str, far: f64) -> Param {
    // "Negative C value" (error.rs:9): negative values are out; the guard also rejects 0 (hyperparams.rs:234),
    // which the text does not say -> zero is consistency-only
    loose0(name, "linfa-svm/src/error.rs:9 \"Negative C value {0:?} (positive, negative samples\"", 1.0, far)
}

fn nu_param() -> Param {
    Param {
        name: "nu",
        // rustdoc says the closed range [0, 1] but the guard rejects 0 (hyperparams.rs:242) and nu = 0 is
        // degenerate for nu-SVM: consistency-only at 0 (DESIGN.md C04); nu = 1 is pinned valid by
        // classification.rs:562
        src: "linfa-svm/src/hyperparams.rs:161 \"The Nu value should lie in range [0, 1]\"; error.rs:11 \"Nu should be in unit range\"",
        vals: vec![
            (Sym::L(-1e10), "far_below", I, false),
            (Sym::NegTiny, "just_below", I, false),
            (Sym::NegZero, "neg_zero", U, false),
            (Sym::L(0.0), "at_lower", U, false),
            (Sym::Tiny, "just_inside", V, false),
            (Sym::L(0.5), "inside", V, false),
            (Sym::OneBelow, "just_below_upper", V, false),
            (Sym::L(1.0), "at_upper", V, false),
            (Sym::OneAbove, "just_above_upper", I, false),
            (Sym::L(1e10), "far_above", I, false),
        ],
    }
}

fn platt_params() -> Vec<Param> {
    vec![
        Param {
            name: "platt_maxiter",
            src: "linfa/src/composing/platt_scaling.rs:142 \"maxiter should be larger than zero\" (checked first by SvmParams::check_ref, hyperparams.rs:223)",
            vals: vec![(Sym::U(0), "zero", I, false), (Sym::U(100), "default", V, false)],
        },
        Param {
            name: "platt_minstep",
            src: "linfa/src/composing/platt_scaling.rs:144 \"minstep should be positive\"",
            vals: vec![(Sym::L(-1.0), "below", I, false), (Sym::L(1e-10), "default", V, false)],
        },
        Param {
            name: "platt_sigma",
            src: "linfa/src/composing/platt_scaling.rs:146 \"sigma should be positive\"",
            vals: vec![(Sym::L(-1.0), "below", I, false), (Sym::L(1e-12), "default", V, false)],
        },
    ]
}

fn svm_err_param(e: &str) -> Option<&'static str> {
    if e.contains("InvalidEps") {
        Some("eps")
    } else if e.contains("InvalidNu") {
        Some("nu")
    } else if e.contains("MaxIter") {
        Some("platt_maxiter")
    } else if e.contains("MinStepNegative") {
        Some("platt_minstep")
    } else if e.contains("SigmaNegative") {
        Some("platt_sigma")
    } else {
        None // InvalidC names a pair
    }
}

/// applies the solver epsilon and the nested Platt parameters of `case` to an existing builder
fn kernel_param() -> Param {
    free(
        "kernel",
        "linfa-svm/src/hyperparams.rs:129-148 kernel setters (no validated field)",
        vec![(Sym::S("linear"), "default"), (Sym::S("gaussian"), "gaussian"), (Sym::S("polynomial"), "polynomial")],
    )
}

fn kernel_of<F: Float>(tag: &str) -> linfa_kernel::KernelParams<F> {
    use linfa_kernel::{Kernel, KernelMethod};
    Kernel::params().method(match tag {
        "gaussian" => KernelMethod::Gaussian(F::cast(2.0)),
        "polynomial" => KernelMethod::Polynomial(F::cast(1.0), F::cast(2.0)),
        _ => KernelMethod::Linear,
    })
}

fn platt_of<F: Float>(case: &Case) -> linfa::platt_scaling::PlattParams<F, ()> {
    if case.vals.iter().any(|v| v.name == "platt_maxiter") {
        Platt::params().maxiter(case.u("platt_maxiter") as usize).minstep(F::cast(case.f("platt_minstep"))).sigma(F::cast(case.f("platt_sigma")))
    } else {
        Platt::params()
    }
}

fn common<F: Float, T>(p: SvmParams<F, T>, case: &Case) -> SvmParams<F, T> {
    let mut p = if case.moved(&["eps"]) { p.eps(F::cast(case.f("eps"))) } else { p };
    if case.moved(&["kernel"]) {
        p = match case.s("kernel") {
            "gaussian" => p.gaussian_kernel(F::cast(2.0)),
            "polynomial" => p.polynomial_kernel(F::cast(1.0), F::cast(2.0)),
            _ => p.linear_kernel(),
        };
    }
    if case.vals.iter().any(|v| v.name == "platt_maxiter") && case.moved(&["platt_maxiter", "platt_minstep", "platt_sigma"]) {
        p = p.with_platt_params(
            Platt::params()
                .maxiter(case.u("platt_maxiter") as usize)
                .minstep(F::cast(case.f("platt_minstep")))
                .sigma(F::cast(case.f("platt_sigma"))),
        );
    }
    p
}

macro_rules! classification_spec {
    ($fname:ident, $name:expr, $t:ty, $nu:expr) => {
        pub fn $fname() -> BuilderSpec {
            let mut params = vec![eps_param(), kernel_param()];
            if $nu {
                params.push(nu_param());
            } else {
                params.push(c_param("c_pos", 1e10));
                params.push(c_param("c_neg", 1e10));
            }
            params.extend(platt_params());
            BuilderSpec {
                name: $name,
                floats: &["f64", "f32"],
                params,
                relation: no_relation,
                err_param: svm_err_param,
                run: |c, s, o| if c.float == "f32" { classification::<f32, $t>(c, s, o, $nu, |m| dbg(m)) } else { classification::<f64, $t>(c, s, o, $nu, |m| dbg(m)) },
            }
        }
    };
}
classification_spec!(svm_c_bool_spec, "svm_c_bool", bool, false);
classification_spec!(svm_nu_bool_spec, "svm_nu_bool", bool, true);
classification_spec!(svm_c_pr_spec, "svm_c_pr", Pr, false);
classification_spec!(svm_nu_pr_spec, "svm_nu_pr", Pr, true);

fn classification<F: Float, T>(case: &Case, spec: &BuilderSpec, out: &mut Outcome, nu: bool, show: fn(&Svm<F, T>) -> String)
where
    linfa_svm::SvmValidParams<F, T>: Fit<Array2<F>, Array1<bool>, SvmError, Object = Svm<F, T>>,
    T: std::fmt::Debug + Clone,
{
    let ds = Dataset::new(xmat::<F>(), Array1::from_shape_fn(8, |i| LAB[i]));
    let base = || Svm::<F, T>::params();
    let set = setter(&base, |p, c| {
        let p = common(p, c);
        if nu {
            if c.moved(&["nu"]) {
                p.nu_weight(F::cast(c.f("nu")))
            } else {
                p
            }
        } else if c.moved(&["c_pos", "c_neg"]) {
            p.pos_neg_weights(F::cast(c.f("c_pos")), F::cast(c.f("c_neg")))
        } else {
            p
        }
    });
    let make = || set(base(), case);
    let ops = vec![op(&make, "fit", |p| p.fit(&ds).map(|m| show(&m)).map_err(|e: SvmError| dbg(&e)), |p| p.fit(&ds).map(|m| show(&m)).map_err(|e: SvmError| dbg(&e)), |e| dbg(&e))];
    let rb_kernel = setter(&base, |p, c| p.with_kernel_params(kernel_of(c.s("kernel"))));
    let rb_platt = setter(&base, |p, c| p.with_platt_params(platt_of(c)));
    judge(case, spec, &base, &set, Some(&|p| p.clone()), &[("with_kernel_params", &rb_kernel), ("with_platt_params", &rb_platt)], &|p| dbg(p), &|c| dbg(c), ops, out);
}

// ---------------- regression ----------------
pub fn svm_regression_c_spec() -> BuilderSpec {
    BuilderSpec {
        name: "svm_regression_c",
        floats: &["f64", "f32"],
        params: vec![
            eps_param(),
            kernel_param(),
            // far inside = 10: eps-SVR with C = 1e10 needs minutes on 8 points, C = 1e3 with the polynomial kernel many seconds
            c_param("c", 10.0),
            Param {
                name: "loss_eps",
                // c_svr rustdoc (hyperparams.rs:191) gives no range for the loss epsilon; the guard reports a
                // non-positive one as InvalidC (hyperparams.rs:234): consistency-only below / at zero
                src: "linfa-svm/src/hyperparams.rs:191 \"optionnaly an epsilon value used in loss function (default 0.1)\" (no documented range)",
                vals: vec![(Sym::OptL(None), "unset", V, false), (Sym::OptL(Some(-1.0)), "below", U, false), (Sym::OptL(Some(0.0)), "zero", U, false), (Sym::OptL(Some(0.1)), "inside", V, false)],
            },
        ],
        relation: no_relation,
        err_param: svm_err_param,
        run: |c, s, o| if c.float == "f32" { regression_f32(c, s, o, false) } else { regression_f64(c, s, o, false) },
    }
}

pub fn svm_regression_nu_spec() -> BuilderSpec {
    BuilderSpec {
        name: "svm_regression_nu",
        floats: &["f64", "f32"],
        params: vec![
            eps_param(),
            kernel_param(),
            nu_param(),
            Param {
                name: "c",
                src: "linfa-svm/src/hyperparams.rs:198 \"Set the Nu and optionally a C value (default 1.) for regression\"; error.rs:9 \"Negative C value\"",
                vals: vec![
                    (Sym::OptL(None), "unset", V, false),
                    (Sym::OptL(Some(-1e10)), "far_below", I, false),
                    (Sym::OptNegTiny, "just_below", I, false),
                    (Sym::OptL(Some(-0.0)), "neg_zero", U, false),
                    (Sym::OptL(Some(0.0)), "zero", U, false),
                    (Sym::OptL(Some(1.0)), "inside", V, false),
                    (Sym::OptL(Some(10.0)), "far_inside", V, false),
                ],
            },
        ],
        relation: no_relation,
        err_param: svm_err_param,
        run: |c, s, o| if c.float == "f32" { regression_f32(c, s, o, true) } else { regression_f64(c, s, o, true) },
    }
}

macro_rules! regression_impl {
    ($name:ident, $f:ty) => {
        fn $name(case: &Case, spec: &BuilderSpec, out: &mut Outcome, nu: bool) {
            let ds = Dataset::new(xmat::<$f>(), Array1::from_shape_fn(8, |i| Y[i] as $f));
            let base = || Svm::<$f, $f>::params();
            let set = setter(&base, |p, c| {
                let p = common(p, c);
                if nu {
                    if c.moved(&["nu", "c"]) {
                        p.nu_svr(c.f("nu") as $f, c.of("c").map(|x| x as $f))
                    } else {
                        p
                    }
                } else if c.moved(&["c", "loss_eps"]) {
                    p.c_svr(c.f("c") as $f, c.of("loss_eps").map(|x| x as $f))
                } else {
                    p
                }
            });
            let make = || set(base(), case);
            let ops = vec![op(&make, "fit", |p| p.fit(&ds).map(|m| dbg(&m)).map_err(|e: SvmError| dbg(&e)), |p| p.fit(&ds).map(|m| dbg(&m)).map_err(|e: SvmError| dbg(&e)), |e| dbg(&e))];
            let rb_kernel = setter(&base, |p, c| p.with_kernel_params(kernel_of(c.s("kernel"))));
            let rb_platt = setter(&base, |p, c| p.with_platt_params(platt_of(c)));
            judge(case, spec, &base, &set, Some(&|p| p.clone()), &[("with_kernel_params", &rb_kernel), ("with_platt_params", &rb_platt)], &|p| dbg(p), &|c| dbg(c), ops, out);
        }
    };
}
regression_impl!(regression_f64, f64);
regression_impl!(regression_f32, f32);
