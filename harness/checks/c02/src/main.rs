//! C02 — dataset operations keep record, target and weight of a sample together.
//!
//! Explicit-state exploration (DESIGN.md §4 C02): a state is a dataset given as a vector of tagged
//! rows (+ weights, names, target kind, record memory order); a transition rebuilds the REAL linfa
//! dataset of the state, applies one operation of the alphabet through the public API (to the owned
//! value or to `.view()` of it), observes every dataset it returns through the public accessors and
//! compares with the same operation on the tagged rows. Every verified result is a successor state.
//! Randomised operations are driven by a scripted generator, so their choices are enumerated too.

mod model;
mod ops;
mod oracle;

use lvmc_core::enumerate as en;
use lvmc_core::explore::{bfs, Lockstep};
use lvmc_core::{json, par_sweep, Ctx, Level, Value, Violation};
use model::*;
use std::collections::HashSet;
use std::sync::atomic::{AtomicU64, Ordering};
use std::sync::Mutex;

#[derive(Clone, Copy)]
struct Cfg {
    /// enumerate all n! shuffle scripts while n! <= this, a 4-script catalogue above
    shuffle_cap: usize,
    /// enumerate all index vectors of a bootstrap while their number <= this, a catalogue above
    boot_cap: usize,
    /// apply the `&self` operations to `.view()` as well
    views: bool,
    /// number of constant raw-word scripts (of 8) used for the randomised operations
    raw_words: usize,
}

#[derive(Default)]
struct Stats {
    per_op: [AtomicU64; 17],
    produced: AtomicU64,
    carried_weights: AtomicU64,
    carried_fnames: AtomicU64,
    effective: AtomicU64,
    expected_panics: AtomicU64,
    scripted: AtomicU64,
    scripts_honoured: AtomicU64,
    on_view: AtomicU64,
    global_states: Mutex<HashSet<Vec<u8>>>,
    max_n: AtomicU64,
}

fn factorial(n: usize) -> usize {
    (1..=n).fold(1usize, |a, b| a.saturating_mul(b))
}

/// Every script of a shuffle of n rows (draw k has range n-k), or a catalogue when there are too many.
fn shuffle_scripts(n: usize, cap: usize) -> Vec<Vec<usize>> {
    if n < 2 {
        return vec![vec![]];
    }
    let ranges: Vec<usize> = (0..n - 1).map(|k| n - k).collect();
    if factorial(n) <= cap {
        en::grid(&ranges)
    } else {
        let mut v = vec![
            ranges.iter().map(|&r| r - 1).collect::<Vec<_>>(), // identity (every swap with itself)
            ranges.iter().map(|_| 0).collect(),                // rotation
            ranges.iter().map(|&r| r / 2).collect(),
            ranges.iter().enumerate().map(|(k, &r)| if k % 2 == 0 { 0 } else { r - 1 }).collect(),
        ];
        v.dedup();
        v
    }
}

/// Every vector of `len` draws from 0..range, or a catalogue when there are too many.
fn draw_scripts(range: usize, len: usize, cap: usize) -> Vec<Vec<usize>> {
    let total = range.checked_pow(len as u32).unwrap_or(usize::MAX);
    if total <= cap {
        en::sequences(len, range)
    } else {
        let mut v: Vec<Vec<usize>> = vec![
            vec![0; len],
            vec![range - 1; len],
            (0..len).map(|k| k % range).collect(),
            (0..len).map(|k| (range - 1) - (k % range)).collect(),
            (0..len).map(|k| (2 * k + 1) % range).collect(),
        ];
        v.sort();
        v.dedup();
        v
    }
}

/// Raw-word scripts: constant words (all zero bits, all one bits, the two halves, alternating bit
/// patterns, ...) and the two alternations of the extremes.
fn raw_scripts(words: usize, len: usize) -> Vec<Vec<usize>> {
    let all: [usize; 8] = [0, usize::MAX, usize::MAX / 2, usize::MAX / 2 + 1, 0x5555_5555_5555_5555, 0xAAAA_AAAA_AAAA_AAAA, 1, usize::MAX - 1];
    let mut v: Vec<Vec<usize>> = all[..words.min(8)].iter().map(|&w| vec![w; len]).collect();
    v.push((0..len).map(|k| if k % 2 == 0 { 0 } else { usize::MAX }).collect());
    v.push((0..len).map(|k| if k % 2 == 0 { usize::MAX } else { 0 }).collect());
    v
}

fn actions_of(m: &Model, cfg: &Cfg) -> Vec<Act> {
    let n = m.n();
    let mut a = Vec::new();
    if !m.counted {
        for r in 0..RATIOS.len() {
            a.push(Act::SplitOwned { r });
        }
        if m.t2 && m.nt == 1 {
            a.push(Act::IntoSingleTarget);
        }
    }
    for r in 0..RATIOS.len() {
        a.push(Act::SplitView { r });
    }
    a.push(Act::View);
    let views: &[bool] = if cfg.views { &[false, true] } else { &[false] };
    for &view in views {
        for script in shuffle_scripts(n, cfg.shuffle_cap) {
            a.push(Act::Shuffle { view, script, raw: false });
        }
        if n >= 1 && m.nf >= 1 {
            for mm in [1usize, 2, 3] {
                for script in draw_scripts(n, mm, cfg.boot_cap) {
                    a.push(Act::BootSamples { view, m: mm, items: 1, script, raw: false });
                }
            }
            // two consecutive items of the (infinite) iterator
            for script in draw_scripts(n, 2, cfg.boot_cap) {
                a.push(Act::BootSamples { view, m: 1, items: 2, script, raw: false });
            }
            for q in [1usize, 2] {
                for script in draw_scripts(m.nf, q, cfg.boot_cap) {
                    a.push(Act::BootFeatures { view, q, items: 1, script, raw: false });
                }
            }
            for script in draw_scripts(m.nf, 2, cfg.boot_cap) {
                a.push(Act::BootFeatures { view, q: 1, items: 2, script, raw: false });
            }
            for rows in draw_scripts(n, 2, cfg.boot_cap.min(9)) {
                for cols in draw_scripts(m.nf, 2, cfg.boot_cap.min(9)) {
                    let mut script = rows.clone();
                    script.extend(cols);
                    a.push(Act::Boot { view, m: 2, q: 2, script, raw: false });
                }
            }
        }
        if n >= 1 && m.nf >= 1 {
            // extreme answers of the generator as raw 64-bit words (owned value only), and the
            // per-index coverage runs
            if !view {
                for script in raw_scripts(cfg.raw_words, 2 * n.max(4) + 2) {
                    a.push(Act::Shuffle { view, script: script.clone(), raw: true });
                    a.push(Act::BootSamples { view, m: 2, items: 2, script: script.clone(), raw: true });
                    a.push(Act::BootFeatures { view, q: 2, items: 2, script: script.clone(), raw: true });
                    a.push(Act::Boot { view, m: 2, q: 2, script, raw: true });
                }
            }
            a.push(Act::DrawCoverage { view, features: false });
            a.push(Act::DrawCoverage { view, features: true });
        }
        for s in en::subsets_upto(3, 1, 3) {
            a.push(Act::WithLabels { view, labels: s });
        }
        if !m.t2 {
            a.push(Act::OneVsAll { view });
        } else {
            a.push(Act::TargetIter { view });
        }
        a.push(Act::MapTargets { view });
        a.push(Act::ToOwned { view });
        for c in [1usize, 2, 3] {
            a.push(Act::Chunks { view, c });
        }
        a.push(Act::SampleIter { view });
        a.push(Act::FeatureIter { view });
        for k in [2usize, 3] {
            if k <= n {
                a.push(Act::Fold { view, k });
            }
        }
    }
    a.retain(|x| ops::applicable(&m.ltype, x));
    a
}

struct Explorer<'a> {
    seeds: Vec<Model>,
    cfg: Cfg,
    stats: &'a Stats,
}

impl<'a> Lockstep for Explorer<'a> {
    type S = Model;
    type A = Act;
    fn init(&self) -> Vec<Model> {
        self.seeds.clone()
    }
    fn actions(&self, s: &Model) -> Vec<Act> {
        actions_of(s, &self.cfg)
    }
    fn step(&self, s: &Model, a: &Act, history: &[String]) -> (Vec<Model>, Vec<Violation>) {
        let o = oracle::step(s, a, history);
        let st = self.stats;
        let op = Act::OPS.iter().position(|x| *x == a.op()).unwrap();
        st.per_op[op].fetch_add(1, Ordering::Relaxed);
        st.produced.fetch_add(o.produced as u64, Ordering::Relaxed);
        st.carried_weights.fetch_add(o.carried_weights as u64, Ordering::Relaxed);
        st.carried_fnames.fetch_add(o.carried_fnames as u64, Ordering::Relaxed);
        st.effective.fetch_add(o.effective as u64, Ordering::Relaxed);
        st.expected_panics.fetch_add(o.expected_panic as u64, Ordering::Relaxed);
        st.on_view.fetch_add(a.on_view() as u64, Ordering::Relaxed);
        if let Some(h) = o.script_honoured {
            st.scripted.fetch_add(1, Ordering::Relaxed);
            st.scripts_honoured.fetch_add(h as u64, Ordering::Relaxed);
        }
        (o.succ, o.viols)
    }
    fn canon(&self, s: &Model) -> Vec<u8> {
        let c = s.canon();
        self.stats.max_n.fetch_max(s.n() as u64, Ordering::Relaxed);
        self.stats.global_states.lock().unwrap().insert(c.clone());
        c
    }
}

fn replay_value(v: &Value) -> Vec<Violation> {
    let parent: Model = match v.get("parent").cloned().map(serde_json::from_value) {
        Some(Ok(m)) => m,
        _ => {
            println!("MACHINERY-ERROR replay case has no parsable parent state");
            std::process::exit(2);
        }
    };
    let act: Act = match v.get("act").cloned().map(serde_json::from_value) {
        Some(Ok(a)) => a,
        _ => {
            println!("MACHINERY-ERROR replay case has no parsable action");
            std::process::exit(2);
        }
    };
    let hist: Vec<String> = v.get("history").and_then(|h| h.as_array()).map(|a| a.iter().filter_map(|x| x.as_str().map(|s| s.to_string())).collect()).unwrap_or_default();
    oracle::step(&parent, &act, &hist).viols
}

fn main() {
    let ctx = Ctx::new("C02", Level::ModelChecking);
    ctx.maybe_replay(&replay_value);

    let depth = ctx.pick(2usize, 3usize);
    let deep_extra = ctx.pick(0usize, 1usize); // seeds with n <= 3 go one level deeper in the thorough tier
    let cfg = Cfg { shuffle_cap: ctx.pick(6, 24), boot_cap: ctx.pick(9, 27), views: true, raw_words: ctx.pick(4, 8) };

    ctx.set_rule(
        "states = datasets as vectors of tagged rows (record tag 100*(sample+1)+feature, weight 0.5+sample) with target kind, CountedTargets wrapper, names and record memory order; \
         seeds: n in {0,1,2,3,5,6} x f in {1,3} x targets {1-d labels i mod 3, 1-d labels i (thorough), 2-d one column, 2-d two columns} x weights {none, all} x names {none, all}; \
         plus layout seeds (n in {1,3,5}; quick {3,5}): record / target / weight arrays as slice_move out of a larger allocation, reversed rows of a reversed copy, every second row of an allocation whose other rows hold poison, column-major (records and 2-d targets) - each alone and all together; the layout is hidden state of the successors that keep the source's arrays; any poison value in any result is a violation; \
         plus seeds (n in {2,3,5,6}) whose weights hold exact zeros / ties: one sample at 0, a whole class at 0, all 0, all 1; in every returned dataset labels() (method syntax), label_set() and label_frequencies() are compared with the labels / weight sums of its own targets; \
         plus seeds whose targets have element type bool / &'static str / String / i64 (the operations linfa defines for that type); \
         plus single transitions on datasets of 1025 (thorough: and 4097) rows x 2 features (standard, every-second-row, column-major): both splits at all ratios, shuffle, bootstrap_samples(n and 1025), bootstrap_features, with_labels, one_vs_all / target_iter, sample_chunks(1, 1024, 1025, n), sample_iter, feature_iter, to_owned, map_targets, fold(3); \
         actions (real API, on the owned value and on .view()): owned and view split_with_ratio for r in {0,.25,1/3,.5,.7,1} (both parts successors), shuffle, bootstrap_samples(m=1..3, and two consecutive items), \
         bootstrap_features(q=1..2, and two consecutive items), bootstrap((2,2)) — all under a scripted generator whose scripts are enumerated exhaustively up to the stated caps (catalogue above) —, \
         with_labels(S) for every non-empty S of {0,1,2}, one_vs_all (every view a successor), map_targets(+1), to_owned, view, into_single_target, sample_chunks(1..3), sample_iter, target_iter, feature_iter, fold(2..3); \
         breadth-first to the stated depth, states de-duplicated by their full canonical bytes; one evaluation = one transition (one call of the real operation with all its results checked); \
         the explorer counts every transition as non-trivial, the stricter count (result non-empty and different from the source) is coverage.transitions_with_effect.",
    );
    ctx.assume("the real dataset of a state is rebuilt from the tagged rows with DatasetBase::new / with_weights / with_feature_names / with_target_names / CountedTargets::new (trusted base); DatasetBase has no other state than the five containers, the CountedTargets cache (checked against a recount in every produced value) and the memory of the arrays: record memory order and whether an owned array is a slice of a larger allocation are part of the state (which results stay inside the source allocation is taken from the operation: into_single_target, view and owned map_targets keep it, everything else allocates)");
    ctx.assume("one_vs_all results (CountedTargets<bool,..>) continue as states with labels 0/1 of type usize (same generic code)");
    ctx.assume("split size = ceil of the single-precision product, computed as ((n as f64 * r as f64) as f32).ceil() (exact double product, one rounding); discrete outputs are compared exactly, no tolerance anywhere");
    ctx.assume("weights / names are only checked when the result carries them (statement: 'whenever the result carries weights or names'); dropping them is accepted except for with_labels, whose rustdoc promises that weights and feature names are preserved");
    ctx.assume("randomised operations run under a scripted generator and are compared in lock-step with rand 0.8's own gen_range(0..n) / slice shuffle on an identical generator (the documented selection is uniform with replacement / a uniform shuffle, which linfa implements with exactly these calls; a different mapping of random words to indices is reported); scripts: every wanted index vector up to the caps, a catalogue above, constant and alternating raw 64-bit words (all zero bits, all one bits, halves, 0x55.. / 0xAA..); per state and operation the runs 'every draw answers d' for d = 0..n-1 must draw every sample / feature index (index_never_drawn)");
    ctx.assume("domain: bootstrap needs n >= 1 and f >= 1 (nothing to draw otherwise), fold(k) needs k <= n, sample_chunks(c) needs c >= 1, target_iter needs 2-d targets (documented), into_single_target needs a 2-d single column (documented); owned split_with_ratio on records or targets that are not row-major (column-major, reversed, strided) must panic as documented (counted in documented_panics_checked); sample_chunks yields floor(n/c) full chunks (tail dropped, as iter_fold relies on)");
    ctx.assume(&format!("bounds: depth {} (+{} for seeds with n <= 3); shuffle scripts exhaustive while n! <= {}, bootstrap index vectors exhaustive while their number <= {}", depth, deep_extra, cfg.shuffle_cap, cfg.boot_cap));

    // ---------------- seeds ----------------
    let mut seeds: Vec<Model> = Vec::new();
    let mut kinds: Vec<(&str, &str)> = vec![("ix1", "cyc"), ("ix2x1", "cyc"), ("ix2x2", "cyc")];
    if ctx.thorough() {
        kinds.push(("ix1", "id"));
    }
    for &n in &[0usize, 1, 2, 3, 5, 6] {
        for &f in &[1usize, 3] {
            for (t, l) in &kinds {
                for w in [false, true] {
                    for names in [false, true] {
                        let s = seed(n, f, t, l, w, names);
                        if !seeds.contains(&s) {
                            seeds.push(s);
                        }
                    }
                }
            }
        }
    }
    // ---- weight vectors with exact zeros and ties (a sample / a whole class / everything at weight 0, all ones)
    let before_w = seeds.len();
    let wp_fs: &[usize] = if ctx.quick() { &[1] } else { &[1, 3] };
    for &n in &[2usize, 3, 5, 6] {
        for &f in wp_fs {
            for t in ["ix1", "ix2x1", "ix2x2"] {
                for pat in ["one_zero", "class_zero", "all_zero", "all_one"] {
                    if ctx.quick() && n == 6 && pat != "class_zero" {
                        continue;
                    }
                    let s = with_weight_pattern(seed(n, f, t, "cyc", true, false), pat);
                    if !seeds.contains(&s) {
                        seeds.push(s);
                    }
                }
            }
        }
    }
    let n_weight_seeds = seeds.len() - before_w;
    // ---- memory layouts: the same logical datasets with every container in a non-standard layout
    let tight = seeds.len();
    let mut combos: Vec<(Lay, Lay, Lay)> = Vec::new();
    for l in [Lay::Sliced, Lay::Reversed, Lay::EverySecond] {
        combos.extend([(l, l, l), (l, Lay::Std, Lay::Std), (Lay::Std, l, Lay::Std), (Lay::Std, Lay::Std, l)]);
    }
    combos.extend([(Lay::ColMajor, Lay::ColMajor, Lay::Std), (Lay::ColMajor, Lay::Std, Lay::Std), (Lay::Std, Lay::ColMajor, Lay::Std)]);
    let layout_ns: &[usize] = if ctx.quick() { &[3, 5] } else { &[1, 3, 5] };
    for &n in layout_ns {
        for &f in &[1usize, 3] {
            for t in ["ix1", "ix2x1", "ix2x2"] {
                for w in [false, true] {
                    for &(lr, lt, lw) in &combos {
                        // quick: the n = 5 datasets only in the "everything" combinations
                        let everything = lr == lt && (lr == lw || lr == Lay::ColMajor);
                        // and, to stay inside the quick budget, only weighted datasets; one feature
                        // column only in the "everything" combinations
                        if ctx.quick() && ((n == 5 && !everything) || !w || (f == 1 && !everything)) {
                            continue;
                        }
                        let mut s = seed(n, f, t, "cyc", w, false);
                        s.lr = if lr == Lay::ColMajor && (n <= 1 || f <= 1) { Lay::Std } else { lr };
                        s.lt = if lt == Lay::ColMajor && (n <= 1 || s.nt <= 1) { Lay::Std } else { lt };
                        s.lw = if w { lw } else { Lay::Std };
                        if !seeds.contains(&s) {
                            seeds.push(s);
                        }
                    }
                }
            }
        }
    }
    let n_layout_seeds = seeds.len() - tight;
    // ---- element types of the targets
    let before_types = seeds.len();
    for lt in ["bool", "str", "string", "i64"] {
        let type_ns: &[usize] = if ctx.quick() { &[3] } else { &[2, 5] };
        for &n in type_ns {
            for t in ["ix1", "ix2x1", "ix2x2"] {
                for w in [false, true] {
                    let mut s = seed(n, 3, t, if lt == "bool" { "bin" } else { "cyc" }, w, true);
                    s.ltype = lt.to_string();
                    seeds.push(s.clone());
                    if w && n >= 3 && lt != "bool" {
                        // one layout combination per type (bool cannot carry a poison label)
                        s.lr = Lay::EverySecond;
                        s.lt = Lay::EverySecond;
                        s.lw = Lay::Sliced;
                        seeds.push(s);
                    }
                }
            }
        }
    }
    ctx.extra("seeds", json!(seeds.len()));
    ctx.extra("seeds_with_zero_or_tied_weights", json!(n_weight_seeds));
    ctx.extra("seeds_with_non_standard_memory_layout", json!(n_layout_seeds));
    ctx.extra("seeds_with_other_target_element_types", json!(seeds.len() - before_types));

    let stats = Stats::default();
    let done = AtomicU64::new(0);
    let sum_states = AtomicU64::new(0);
    par_sweep(&ctx, "bfs per seed", &seeds, |s| {
        let d = if s.n() <= 3 { depth + deep_extra } else { depth };
        let m = Explorer { seeds: vec![s.clone()], cfg, stats: &stats };
        let st = bfs(&ctx, &m, d);
        ctx.add_states(0, st.transitions, st.histories);
        sum_states.fetch_add(st.states, Ordering::Relaxed);
        if st.capped {
            ctx.capped(&format!("seed n={} f={}: wall cap hit inside the breadth-first search", s.n(), s.nf));
        } else {
            done.fetch_add(1, Ordering::Relaxed);
        }
        ctx.sample(|| json!({"seed": s, "depth": d, "states": st.states, "transitions": st.transitions, "first_actions": actions_of(s, &cfg).iter().take(3).collect::<Vec<_>>()}));
    });
    // ---------------- large datasets (size thresholds): single transitions, same oracle ----------------
    let big_ns: Vec<usize> = if ctx.quick() { vec![1025] } else { vec![1025, 4097] };
    let mut big: Vec<(Model, Act)> = Vec::new();
    for &n in &big_ns {
        for t in ["ix1", "ix2x2"] {
            let mut lays = vec![(Lay::Std, Lay::Std, Lay::Std)];
            if ctx.thorough() || t == "ix1" {
                lays.push((Lay::EverySecond, Lay::EverySecond, Lay::Sliced));
            }
            if ctx.thorough() {
                lays.push((Lay::ColMajor, Lay::ColMajor, Lay::Std));
            }
            for (lr, lt, lw) in lays {
                let mut m = seed(n, 2, t, "cyc", true, true);
                if lr == Lay::Std {
                    // the standard-layout member carries a whole class at weight 0
                    m = with_weight_pattern(m, "class_zero");
                }
                m.lr = lr;
                m.lt = if lt == Lay::ColMajor && !m.t2 { Lay::Std } else { lt };
                m.lw = lw;
                let mut acts: Vec<Act> = Vec::new();
                for r in 0..RATIOS.len() {
                    acts.push(Act::SplitOwned { r });
                    acts.push(Act::SplitView { r });
                }
                for view in [false, true] {
                    for script in shuffle_scripts(n, 0) {
                        acts.push(Act::Shuffle { view, script, raw: false });
                    }
                    for script in draw_scripts(n, n, 0) {
                        acts.push(Act::BootSamples { view, m: n, items: 1, script, raw: false });
                    }
                    for script in draw_scripts(n, 1025, 0) {
                        acts.push(Act::BootSamples { view, m: 1025, items: 1, script, raw: false });
                    }
                    for script in draw_scripts(2, 2, 4) {
                        acts.push(Act::BootFeatures { view, q: 2, items: 1, script, raw: false });
                    }
                    for sub in en::subsets_upto(3, 1, 3) {
                        acts.push(Act::WithLabels { view, labels: sub });
                    }
                    if m.t2 {
                        acts.push(Act::TargetIter { view });
                    } else {
                        acts.push(Act::OneVsAll { view });
                    }
                    for c in [1usize, 1024, 1025, n] {
                        acts.push(Act::Chunks { view, c });
                    }
                    acts.push(Act::SampleIter { view });
                    acts.push(Act::FeatureIter { view });
                    acts.push(Act::DrawCoverage { view, features: true });
                    if !view {
                        for script in raw_scripts(8, 2 * n + 2) {
                            acts.push(Act::Shuffle { view, script: script.clone(), raw: true });
                            acts.push(Act::BootSamples { view, m: n, items: 1, script, raw: true });
                        }
                    }
                    acts.push(Act::ToOwned { view });
                    acts.push(Act::MapTargets { view });
                    acts.push(Act::Fold { view, k: 3 });
                }
                acts.dedup();
                for a in acts {
                    big.push((m.clone(), a));
                }
            }
        }
    }
    let big_done = AtomicU64::new(0);
    par_sweep(&ctx, "large datasets", &big, |(m, a)| {
        let o = oracle::step(m, a, &[]);
        ctx.eval(true);
        ctx.add_states(0, 1, 1);
        stats.produced.fetch_add(o.produced as u64, Ordering::Relaxed);
        stats.expected_panics.fetch_add(o.expected_panic as u64, Ordering::Relaxed);
        if let Some(h) = o.script_honoured {
            stats.scripted.fetch_add(1, Ordering::Relaxed);
            stats.scripts_honoured.fetch_add(h as u64, Ordering::Relaxed);
        }
        ctx.violations(o.viols);
        big_done.fetch_add(1, Ordering::Relaxed);
    });
    ctx.extra("large_dataset_rows", json!(big_ns));
    ctx.extra("large_dataset_transitions", json!(big_done.load(Ordering::Relaxed)));
    if big_done.load(Ordering::Relaxed) != big.len() as u64 {
        ctx.capped("not every large-dataset transition was run");
    }
    let global = stats.global_states.lock().unwrap().len() as u64;
    ctx.add_states(global, 0, 0);
    ctx.extra("seeds_completed", json!(done.load(Ordering::Relaxed)));
    ctx.extra("states_summed_over_seed_searches", json!(sum_states.load(Ordering::Relaxed)));
    ctx.extra("distinct_states_over_all_seeds", json!(global));
    ctx.extra("largest_state_rows", json!(stats.max_n.load(Ordering::Relaxed)));
    let mut per_op = serde_json::Map::new();
    for (i, name) in Act::OPS.iter().enumerate() {
        per_op.insert(name.to_string(), json!(stats.per_op[i].load(Ordering::Relaxed)));
    }
    ctx.extra("transitions_per_operation", Value::Object(per_op));
    ctx.extra("transitions_on_views", json!(stats.on_view.load(Ordering::Relaxed)));
    ctx.extra("transitions_with_effect", json!(stats.effective.load(Ordering::Relaxed)));
    ctx.extra("datasets_returned_and_checked", json!(stats.produced.load(Ordering::Relaxed)));
    ctx.extra("results_carrying_weights", json!(stats.carried_weights.load(Ordering::Relaxed)));
    ctx.extra("results_carrying_feature_names", json!(stats.carried_fnames.load(Ordering::Relaxed)));
    ctx.extra("documented_panics_checked", json!(stats.expected_panics.load(Ordering::Relaxed)));
    ctx.extra("scripted_transitions", json!(stats.scripted.load(Ordering::Relaxed)));
    ctx.extra("scripts_honoured", json!(stats.scripts_honoured.load(Ordering::Relaxed)));
    if done.load(Ordering::Relaxed) != seeds.len() as u64 {
        ctx.capped("not every seed search ran to its depth bound");
    }
    ctx.finish(&replay_value);
}
