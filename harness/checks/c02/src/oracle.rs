//! Oracle of C02: the same operation on the vector of tagged rows, and the comparison of what the
//! real dataset returned with it. Deterministic operations must match the reference exactly;
//! randomised ones (driven by a scripted generator) are held to their contract only.

use crate::model::*;
use crate::ops::{run_impl, ImplOut};
use lvmc_core::{guarded, json, Value, Violation};
use rand::seq::SliceRandom;
use rand::Rng;
use std::collections::BTreeMap;

#[derive(Default)]
pub struct StepOut {
    pub succ: Vec<Model>,
    pub viols: Vec<Violation>,
    /// number of datasets the real operation returned
    pub produced: usize,
    /// results that carried a full weight vector / names (so the "whenever carried" clauses were exercised)
    pub carried_weights: usize,
    pub carried_fnames: usize,
    /// the result is neither empty nor identical to the parent (a real selection / reordering happened)
    pub effective: bool,
    pub expected_panic: bool,
    pub script_honoured: Option<bool>,
}

/// ceil of the single-precision product n * r, derived without a single-precision multiplication:
/// n and r are exact in f64 and their product (<= 24 + 24 significant bits) is exact in f64, so one
/// rounding to f32 gives the correctly rounded single-precision product.
pub fn split_point(n: usize, r: f32) -> usize {
    (((n as f64) * (r as f64)) as f32).ceil() as usize
}
fn split_point_double(n: usize, r: f32) -> usize {
    ((n as f64) * (r as f64)).ceil() as usize
}

fn recount(tgt: &[Vec<usize>], nt: usize) -> Vec<BTreeMap<usize, usize>> {
    let mut c = vec![BTreeMap::new(); nt];
    for row in tgt {
        for (j, &l) in row.iter().enumerate() {
            if j < nt {
                *c[j].entry(l).or_insert(0) += 1;
            }
        }
    }
    c
}

/// Sub-model made of the listed rows (weights follow their rows).
fn take_rows(p: &Model, rows: &[usize]) -> Model {
    let mut m = p.clone();
    m.rec = rows.iter().map(|&i| p.rec[i].clone()).collect();
    m.tgt = rows.iter().map(|&i| p.tgt[i].clone()).collect();
    m.w = p.w.as_ref().map(|w| rows.iter().map(|&i| w[i]).collect::<Vec<f32>>()).filter(|w: &Vec<f32>| !w.is_empty());
    m
}

fn brief<T: std::fmt::Debug>(v: &[T]) -> String {
    if v.len() <= 12 {
        format!("{:?}", v)
    } else {
        format!("{:?}.. ({} entries)", &v[..12], v.len())
    }
}

fn clip(s: String) -> String {
    if s.chars().count() <= 1200 {
        s
    } else {
        let t: String = s.chars().take(1200).collect();
        format!("{} ... [clipped]", t)
    }
}

struct Cx<'a> {
    op: &'static str,
    case: &'a Value,
    v: Vec<Violation>,
}
impl<'a> Cx<'a> {
    fn fail(&mut self, shape: &str, what: String) {
        self.v.push(Violation::new(format!("{}.{}", self.op, shape), clip(what), self.case.clone()));
    }
    /// a failure whose root cause is not tied to the operation of the transition
    fn fail_global(&mut self, sig: &str, what: String) {
        self.v.push(Violation::new(sig.to_string(), clip(what), self.case.clone()));
    }
}

/// Checks that hold for every returned dataset on its own.
fn well_formed(cx: &mut Cx, o: &Obs, which: &str) -> bool {
    let before = cx.v.len();
    // values from the part of an allocation that lies OUTSIDE the source arrays (sliced owned
    // arrays are surrounded by poison rows) must never show up in a result
    if o.rec.iter().flatten().any(|&t| sample_of(t) == POISON_SAMPLE) {
        cx.fail("records_from_outside_the_array", format!("{}: returned records {:?} contain rows of the allocation that lie outside the source array (poison sample id {})", which, o.rec, POISON_SAMPLE));
    }
    if o.tgt.iter().flatten().any(|&l| l == POISON_LABEL) {
        cx.fail(
            "targets_from_outside_the_array",
            format!("{}: returned targets {:?} ({} rows for {} records) contain entries of the allocation that lie outside the source target array (poison label {})", which, o.tgt, o.tn, o.n, POISON_LABEL),
        );
    }
    if o.w.iter().any(|&x| x == POISON_WEIGHT) {
        cx.fail("weights_from_outside_the_array", format!("{}: returned weights {:?} contain entries of the allocation that lie outside the source weight array (poison weight {})", which, o.w, POISON_WEIGHT));
    }
    if cx.v.len() != before {
        return false;
    }
    if o.tn != o.n {
        cx.fail("targets_rows_differ_from_records_rows", format!("{}: records have {} rows, targets have {}", which, o.n, o.tn));
    }
    if !(o.w.is_empty() || o.w.len() == o.n) {
        cx.fail("weights_wrong_length", format!("{}: {} samples but a weight vector of length {}: {:?}", which, o.n, o.w.len(), o.w));
    }
    match &o.w_accessor {
        Ok(len) => {
            if len.unwrap_or(0) != o.w.len() {
                cx.fail("weights_accessor_inconsistent", format!("{}: weights() reports {:?} but the field has length {}", which, len, o.w.len()));
            }
        }
        Err(msg) => {
            let sig = if o.w_strided && msg.contains("`None`") { "weights.accessor_panics_on_non_contiguous_weights" } else { "weights.accessor_panic" };
            cx.fail_global(sig, format!("{}: weights() of the returned dataset (weights {:?}, contiguous: {}) panicked: {}", which, o.w, !o.w_strided, msg));
        }
    }
    if !(o.fnames.is_empty() || o.fnames.len() == o.nf) {
        cx.fail("feature_names_wrong_length", format!("{}: {} feature columns but names {:?}", which, o.nf, o.fnames));
    }
    if !(o.tnames.is_empty() || o.tnames.len() == o.nt) {
        cx.fail("target_names_wrong_length", format!("{}: {} target columns but names {:?}", which, o.nt, o.tnames));
    }
    let rc = recount(&o.tgt, o.nt);
    if o.counts != rc {
        cx.fail("label_count_stale", format!("{}: label_count() = {:?} but a recount of the returned targets gives {:?}", which, o.counts, rc));
    }
    // label accessors of the returned value: the labels are those of its targets, whatever the weights
    if let Some(acc) = &o.acc {
        let per_col: Vec<Vec<usize>> = rc.iter().map(|m| m.keys().cloned().collect()).collect();
        let mut all: Vec<usize> = per_col.iter().flatten().cloned().collect();
        all.sort();
        all.dedup();
        if acc.labels != all {
            let zero_weight_only = o.w.len() == o.n
                && all.iter().filter(|l| !acc.labels.contains(l)).all(|l| (0..o.n).filter(|&i| o.tgt[i].contains(l)).all(|i| o.w[i] <= 0.0))
                && acc.labels.iter().all(|l| all.contains(l));
            let sig = if zero_weight_only { "labels.class_without_positive_weight_missing" } else { "labels.differ_from_targets" };
            cx.fail_global(sig, format!("{}: labels() = {:?} but the returned targets {} hold the labels {:?} (weights {})", which, acc.labels, brief(&o.tgt), all, brief(&o.w)));
        }
        if acc.label_sets != per_col {
            cx.fail_global("label_set.differs_from_targets", format!("{}: label_set() = {:?} but the target columns hold {:?}", which, acc.label_sets, per_col));
        }
        // label_frequencies(): per label the sum of the weights (1 without weights) of the target entries carrying it
        let mut want: BTreeMap<usize, f32> = BTreeMap::new();
        for (i, row) in o.tgt.iter().enumerate() {
            let wi = if o.w.len() == o.n { o.w[i] } else { o.w.get(i).cloned().unwrap_or(1.0) };
            for &l in row {
                *want.entry(l).or_insert(0.0) += wi;
            }
        }
        let same = want.len() == acc.freqs.len() && want.iter().all(|(k, v)| acc.freqs.get(k).map_or(false, |g| lvmc_core::close(*g as f64, *v as f64, 1e-5, 0.0)));
        if !same {
            cx.fail_global("label_frequencies.wrong_value", format!("{}: label_frequencies() = {:?}, summing the weights {} over the targets {} gives {:?}", which, acc.freqs, brief(&o.w), brief(&o.tgt), want));
        }
    }
    cx.v.len() == before
}

fn sorted_rows(rec: &[Vec<f64>], tgt: &[Vec<usize>], w: Option<&[f32]>) -> Vec<(Vec<u64>, Vec<usize>, u32)> {
    let mut v: Vec<_> = (0..rec.len())
        .map(|i| (rec[i].iter().map(|x| x.to_bits()).collect::<Vec<u64>>(), tgt.get(i).cloned().unwrap_or_default(), w.map_or(0, |w| w[i].to_bits())))
        .collect();
    v.sort();
    v
}

/// Exact comparison with the expected dataset `e` (which lists the weights and names the result may
/// carry). `ordered = false` compares the rows as a multiset of (record, target, weight) rows.
fn cmp_exact(cx: &mut Cx, o: &Obs, e: &Model, ordered: bool, which: &str) -> bool {
    let before = cx.v.len();
    if !well_formed(cx, o, which) {
        return false;
    }
    if o.n != e.n() || o.nf != e.nf || o.nt != e.nt || o.t2 != e.t2 {
        cx.fail(
            "wrong_shape",
            format!(
                "{}: expected {} samples x {} features with {} target column(s) ({}-d), got {} x {} with {} ({}-d)",
                which,
                e.n(),
                e.nf,
                e.nt,
                1 + e.t2 as usize,
                o.n,
                o.nf,
                o.nt,
                1 + o.t2 as usize
            ),
        );
        return false;
    }
    let carried_w = !o.w.is_empty();
    if carried_w && e.w.is_none() {
        cx.fail("weights_from_nowhere", format!("{}: the source has no weights but the result carries {:?}", which, o.w));
        return false;
    }
    if ordered {
        if o.rec != e.rec {
            cx.fail("wrong_rows", format!("{}: expected record rows {:?}, got {:?}", which, e.rec, o.rec));
        } else if o.tgt != e.tgt {
            let mut a = o.tgt.clone();
            let mut b = e.tgt.clone();
            a.sort();
            b.sort();
            if a == b {
                cx.fail("record_target_misaligned", format!("{}: records {:?} came with targets {:?}, their own targets are {:?}", which, o.rec, o.tgt, e.tgt));
            } else {
                cx.fail("wrong_targets", format!("{}: records {:?}: expected targets {:?}, got {:?}", which, o.rec, e.tgt, o.tgt));
            }
        } else if carried_w && Some(&o.w) != e.w.as_ref() {
            let ew = e.w.as_ref().unwrap();
            let k = (0..o.w.len()).find(|&k| o.w[k] != ew[k]).unwrap_or(0);
            if o.n <= 8 {
                cx.fail("weight_misaligned", format!("{}: records {:?} came with weights {:?}, their own weights are {:?}", which, o.rec, o.w, e.w));
            } else {
                cx.fail("weight_misaligned", format!("{}: row {} of {} (record {:?}) came with weight {}, its own weight is {}", which, k, o.n, o.rec[k], o.w[k], ew[k]));
            }
        }
    } else {
        let got = sorted_rows(&o.rec, &o.tgt, if carried_w { Some(&o.w) } else { None });
        let want = sorted_rows(&e.rec, &e.tgt, if carried_w { e.w.as_deref() } else { None });
        if got != want {
            let g2 = sorted_rows(&o.rec, &o.tgt, None);
            let w2 = sorted_rows(&e.rec, &e.tgt, None);
            if g2 == w2 {
                cx.fail("weight_misaligned", format!("{}: rows {:?} came with weights {:?}; their own weights are {:?} for rows {:?}", which, o.rec, o.w, e.w, e.rec));
            } else {
                let gr: Vec<_> = g2.iter().map(|x| x.0.clone()).collect();
                let wr: Vec<_> = w2.iter().map(|x| x.0.clone()).collect();
                let shape = if gr == wr { "record_target_misaligned" } else { "wrong_rows" };
                cx.fail(shape, format!("{}: expected (in any order) records {:?} with targets {:?}, got records {:?} with targets {:?}", which, e.rec, e.tgt, o.rec, o.tgt));
            }
        }
    }
    if !o.fnames.is_empty() && o.fnames != e.fnames {
        let shape = if e.fnames.is_empty() { "feature_names_from_nowhere" } else { "feature_name_on_wrong_column" };
        cx.fail(shape, format!("{}: columns carry tags {:?}; expected names {:?}, got {:?}", which, o.rec.first(), e.fnames, o.fnames));
    }
    if !o.tnames.is_empty() && o.tnames != e.tnames {
        let shape = if e.tnames.is_empty() { "target_names_from_nowhere" } else { "target_name_on_wrong_column" };
        cx.fail(shape, format!("{}: expected target names {:?}, got {:?}", which, e.tnames, o.tnames));
    }
    cx.v.len() == before
}

#[derive(Clone, Copy, PartialEq)]
enum Sel {
    /// all of them, each exactly once (any order for rows; same order for columns)
    All,
    /// exactly this many, each an existing one
    Draw(usize),
}

/// Contract of the randomised operations, decided through the identity tags.
fn cmp_selection(cx: &mut Cx, o: &Obs, p: &Model, rows: Sel, cols: Sel, which: &str) -> bool {
    let before = cx.v.len();
    if !well_formed(cx, o, which) {
        return false;
    }
    let want_n = match rows {
        Sel::All => p.n(),
        Sel::Draw(m) => m,
    };
    let want_f = match cols {
        Sel::All => p.nf,
        Sel::Draw(q) => q,
    };
    if o.n != want_n || o.nf != want_f || o.nt != p.nt || o.t2 != p.t2 {
        cx.fail("wrong_shape", format!("{}: expected {} x {} with {} target column(s), got {} x {} with {}", which, want_n, want_f, p.nt, o.n, o.nf, o.nt));
        return false;
    }
    if o.n == 0 || o.nf == 0 {
        // no tags to decide by; the names of an unchanged column set must still be the source's
        if cols == Sel::All && !o.fnames.is_empty() && o.fnames != p.fnames {
            cx.fail("feature_name_on_wrong_column", format!("{}: expected feature names {:?}, got {:?}", which, p.fnames, o.fnames));
        }
        if !o.tnames.is_empty() && o.tnames != p.tnames {
            cx.fail("target_name_on_wrong_column", format!("{}: expected target names {:?}, got {:?}", which, p.tnames, o.tnames));
        }
        return cx.v.len() == before;
    }
    // every record row belongs to one sample, every column to one feature
    let sids: Vec<i64> = o.rec.iter().map(|r| sample_of(r[0])).collect();
    for (k, r) in o.rec.iter().enumerate() {
        if r.iter().any(|&t| sample_of(t) != sids[k]) {
            cx.fail("record_row_mixes_samples", format!("{}: returned record row {} = {:?} mixes entries of different samples", which, k, r));
            return false;
        }
    }
    let fids: Vec<i64> = o.rec[0].iter().map(|&t| feature_of(t)).collect();
    for r in &o.rec {
        if r.iter().zip(fids.iter()).any(|(&t, &f)| feature_of(t) != f) {
            cx.fail("column_mixes_features", format!("{}: returned records {:?} have a column made of different features", which, o.rec));
            return false;
        }
    }
    let pfids: Vec<i64> = p.rec[0].iter().map(|&t| feature_of(t)).collect();
    match cols {
        Sel::All => {
            if fids != pfids {
                cx.fail("columns_changed", format!("{}: feature columns {:?} became {:?}", which, pfids, fids));
                return false;
            }
        }
        Sel::Draw(_) => {
            if let Some(f) = fids.iter().find(|f| !pfids.contains(f)) {
                cx.fail("nonexistent_feature", format!("{}: returned feature {} is not a feature of the source {:?}", which, f, pfids));
                return false;
            }
        }
    }
    let carried_w = !o.w.is_empty();
    if carried_w && p.w.is_none() {
        cx.fail("weights_from_nowhere", format!("{}: the source has no weights but the result carries {:?}", which, o.w));
        return false;
    }
    let mut by_sid: BTreeMap<i64, Vec<usize>> = BTreeMap::new();
    for i in 0..p.n() {
        by_sid.entry(p.sid(i).unwrap()).or_default().push(i);
    }
    for k in 0..o.n {
        let cands: Vec<usize> = by_sid.get(&sids[k]).cloned().unwrap_or_default();
        if cands.is_empty() {
            cx.fail("nonexistent_sample", format!("{}: returned row {:?} is not a sample of the source", which, o.rec[k]));
            return false;
        }
        let tm: Vec<usize> = cands.iter().cloned().filter(|&i| p.tgt[i] == o.tgt[k]).collect();
        if tm.is_empty() {
            cx.fail(
                "record_target_misaligned",
                format!("{}: returned row {} has the record of sample {} (tags {:?}) but targets {:?}; that sample's targets are {:?}", which, k, sids[k], o.rec[k], o.tgt[k], p.tgt[cands[0]]),
            );
            return false;
        }
        if carried_w {
            let pw = p.w.as_ref().unwrap();
            if !tm.iter().any(|&i| pw[i] == o.w[k]) {
                cx.fail("weight_misaligned", format!("{}: returned row {} is sample {} but carries weight {}; that sample's weight is {}", which, k, sids[k], o.w[k], pw[tm[0]]));
                return false;
            }
        }
    }
    if rows == Sel::All {
        let mut a = sids.clone();
        let mut b: Vec<i64> = (0..p.n()).map(|i| p.sid(i).unwrap()).collect();
        a.sort();
        b.sort();
        if a != b {
            cx.fail("not_a_permutation", format!("{}: source samples {:?}, returned samples {:?}", which, b, sids));
            return false;
        }
    }
    if !o.fnames.is_empty() {
        if p.fnames.is_empty() {
            cx.fail("feature_names_from_nowhere", format!("{}: source has no feature names, result has {:?}", which, o.fnames));
        } else {
            for (c, f) in fids.iter().enumerate() {
                let ok = pfids.iter().enumerate().any(|(j, pf)| pf == f && p.fnames[j] == o.fnames[c]);
                if !ok {
                    cx.fail("feature_name_on_wrong_column", format!("{}: column {} holds feature {} but is named {:?} (source names {:?} for features {:?})", which, c, f, o.fnames[c], p.fnames, pfids));
                    break;
                }
            }
        }
    }
    if !o.tnames.is_empty() && o.tnames != p.tnames {
        let shape = if p.tnames.is_empty() { "target_names_from_nowhere" } else { "target_name_on_wrong_column" };
        cx.fail(shape, format!("{}: expected target names {:?}, got {:?}", which, p.tnames, o.tnames));
    }
    cx.v.len() == before
}

/// Source row of every returned row, decided by the identity tags (None when the source rows are
/// not distinguishable: duplicated samples, no feature column).
fn row_indices(o: &Obs, p: &Model) -> Option<Vec<usize>> {
    if p.nf == 0 || o.nf == 0 {
        return None;
    }
    let mut by_sid: BTreeMap<i64, usize> = BTreeMap::new();
    for i in 0..p.n() {
        if by_sid.insert(p.sid(i)?, i).is_some() {
            return None;
        }
    }
    o.rec.iter().map(|r| by_sid.get(&sample_of(r[0])).cloned()).collect()
}

/// Source column of every returned column (None when the source columns are not distinguishable).
fn col_indices(o: &Obs, p: &Model) -> Option<Vec<usize>> {
    if p.n() == 0 || o.n == 0 {
        return None;
    }
    let pf: Vec<i64> = p.rec[0].iter().map(|&t| feature_of(t)).collect();
    let mut q = pf.clone();
    q.sort();
    q.dedup();
    if q.len() != pf.len() {
        return None;
    }
    o.rec[0].iter().map(|&t| pf.iter().position(|&f| f == feature_of(t))).collect()
}

fn count_mismatch(cx: &mut Cx, got: usize, want: usize, what: &str) -> bool {
    if got != want {
        cx.fail("wrong_number_of_results", format!("expected {} {}, got {}", want, what, got));
        return true;
    }
    false
}

/// One transition: builds the real dataset of `parent`, applies `act` through the real API,
/// applies the reference operation to the rows, compares. Pure function of (parent, act).
pub fn step(parent: &Model, act: &Act, history: &[String]) -> StepOut {
    let mut out = StepOut::default();
    let case = json!({"parent": parent, "act": act, "history": history});
    let mut cx = Cx { op: act.op(), case: &case, v: Vec::new() };
    let p = parent;
    let n = p.n();

    // documented panic of the owned split: records not in row-major layout
    // (decided from the layout the state says, not by asking ndarray)
    let expect_panic = matches!(act, Act::SplitOwned { .. }) && (p.lr.not_row_major(n, p.nf) || p.lt.not_row_major(n, if p.t2 { p.nt } else { 1 }));
    out.expected_panic = expect_panic;

    let res: ImplOut = match guarded(|| run_impl(p, act)) {
        Ok(Ok(r)) => r,
        Ok(Err(e)) => {
            cx.fail("harness_inapplicable_action", e);
            out.viols = cx.v;
            return out;
        }
        Err(msg) => {
            if expect_panic && msg.contains("row-major") {
                return out;
            }
            // closed form of a known failure: fold() derives the fold size from targets.len() (the
            // ELEMENT count) instead of the number of samples; with >= 2 target columns the record
            // chunks are then too few and either the concatenation of no chunks or the chunk swap fails
            let multi_fold = matches!(act, Act::Fold { .. }) && p.t2 && p.nt >= 2 && (msg.contains("Unsupported") || msg.contains("index out of bounds"));
            // closed forms of two layout failures (see the findings): the `weights()` accessor unwraps
            // `as_slice()` (used by with_labels), into_single_target unwraps `into_shape`
            let strided_w = p.w.is_some() && matches!(p.lw, Lay::Reversed | Lay::EverySecond) && n > 1;
            let strided_t = matches!(p.lt, Lay::Reversed | Lay::EverySecond) && n > 1;
            let sliced_split = false;
            if matches!(act, Act::WithLabels { .. }) && strided_w && msg.contains("`None`") {
                cx.fail_global("weights.accessor_panics_on_non_contiguous_weights", format!("{:?} on a dataset whose weight array is {:?} (a legal owned Array1<f32>) panicked: {}", act, p.lw, msg));
                out.viols = cx.v;
                return out;
            }
            if matches!(act, Act::IntoSingleTarget) && strided_t && msg.contains("ShapeError") {
                cx.fail("panic_on_non_contiguous_target_column", format!("{:?} on a dataset whose ({}, 1) target array is {:?} panicked: {}", act, n, p.lt, msg));
                out.viols = cx.v;
                return out;
            }
            let shape = if multi_fold {
                "panic_multi_column_targets"
            } else if sliced_split {
                "panic_on_row_major_array_sliced_from_larger_allocation"
            } else {
                "panic"
            };
            cx.fail(shape, format!("{:?} on a dataset of {} samples x {} features with {} target column(s) panicked: {}", act, n, p.nf, p.nt, msg));
            out.viols = cx.v;
            return out;
        }
    };
    if expect_panic {
        cx.fail("no_panic_on_column_major_records", format!("{:?}: the documented panic for records that are not row-major did not happen", act));
        out.viols = cx.v;
        return out;
    }
    out.produced = res.outs.len() + res.pairs.len();

    // ok[i]: result i passed its checks and becomes a successor state
    let mut ok: Vec<bool> = vec![false; res.outs.len()];
    let all_rows: Vec<usize> = (0..n).collect();
    match act {
        Act::SplitOwned { r } | Act::SplitView { r } => {
            let ratio = RATIOS[*r];
            let n1 = split_point(n, ratio).min(n);
            if !count_mismatch(&mut cx, res.outs.len(), 2, "parts") {
                let (a, b) = (&res.outs[0], &res.outs[1]);
                if a.n != n1 || b.n != n - n1 {
                    let nd = split_point_double(n, ratio);
                    let shape = if a.n == nd && b.n == n - nd { "size_from_double_precision_product" } else { "wrong_sizes" };
                    cx.fail(
                        shape,
                        format!("ratio {} of {} samples: expected parts of {} and {} (ceil of the single-precision product {}), got {} and {}", ratio, n, n1, n - n1, (n as f32) * ratio, a.n, b.n),
                    );
                } else {
                    let e1 = take_rows(p, &all_rows[..n1]);
                    let e2 = take_rows(p, &all_rows[n1..]);
                    ok[0] = cmp_exact(&mut cx, a, &e1, true, "first part");
                    ok[1] = cmp_exact(&mut cx, b, &e2, true, "second part");
                }
            }
        }
        Act::Shuffle { .. } => {
            if !count_mismatch(&mut cx, res.outs.len(), 1, "dataset") {
                ok[0] = cmp_selection(&mut cx, &res.outs[0], p, Sel::All, Sel::All, "shuffled dataset");
                if ok[0] {
                    // lock-step reference: rand's own slice shuffle on an identical generator
                    let mut rr = script_rng(act, n, p.nf);
                    let mut want: Vec<usize> = (0..n).collect();
                    want.shuffle(&mut rr);
                    if let Some(got) = row_indices(&res.outs[0], p) {
                        let same = got == want;
                        out.script_honoured = Some(same);
                        if !same {
                            cx.fail("permutation_differs_from_rand_shuffle_on_same_generator", format!("{:?}: rows came out as source rows {}, rand's shuffle of 0..{} on the same generator gives {}", act, brief(&got), n, brief(&want)));
                            ok[0] = false;
                        }
                    }
                }
            }
        }
        Act::BootSamples { m, items, .. } => {
            if !count_mismatch(&mut cx, res.outs.len(), *items, "datasets") {
                let mut rr = script_rng(act, n, p.nf);
                let mut hon = true;
                for (i, o) in res.outs.iter().enumerate() {
                    ok[i] = cmp_selection(&mut cx, o, p, Sel::Draw(*m), Sel::All, "bootstrapped dataset");
                    // lock-step reference: rand's gen_range(0..n) on an identical generator
                    let want: Vec<usize> = (0..*m).map(|_| rr.gen_range(0..n)).collect();
                    if ok[i] {
                        if let Some(got) = row_indices(o, p) {
                            if got != want {
                                hon = false;
                                ok[i] = false;
                                cx.fail("selection_differs_from_gen_range_on_same_generator", format!("{:?}, item {}: drew source rows {}, gen_range(0..{}) on the same generator gives {}", act, i, brief(&got), n, brief(&want)));
                            }
                        }
                    }
                }
                out.script_honoured = Some(hon);
            }
        }
        Act::BootFeatures { q, items, .. } => {
            if !count_mismatch(&mut cx, res.outs.len(), *items, "datasets") {
                let mut rr = script_rng(act, n, p.nf);
                let mut hon = true;
                for (i, o) in res.outs.iter().enumerate() {
                    ok[i] = cmp_selection(&mut cx, o, p, Sel::All, Sel::Draw(*q), "feature-bootstrapped dataset");
                    let want: Vec<usize> = (0..*q).map(|_| rr.gen_range(0..p.nf)).collect();
                    if ok[i] {
                        if let Some(got) = col_indices(o, p) {
                            if got != want {
                                hon = false;
                                ok[i] = false;
                                cx.fail("selection_differs_from_gen_range_on_same_generator", format!("{:?}, item {}: drew source columns {:?}, gen_range(0..{}) on the same generator gives {:?}", act, i, got, p.nf, want));
                            }
                        }
                    }
                }
                out.script_honoured = Some(hon);
            }
        }
        Act::Boot { m, q, .. } => {
            if !count_mismatch(&mut cx, res.outs.len(), 1, "dataset") {
                let o = &res.outs[0];
                ok[0] = cmp_selection(&mut cx, o, p, Sel::Draw(*m), Sel::Draw(*q), "bootstrapped dataset");
                if ok[0] {
                    let mut rr = script_rng(act, n, p.nf);
                    let want_r: Vec<usize> = (0..*m).map(|_| rr.gen_range(0..n)).collect();
                    let want_c: Vec<usize> = (0..*q).map(|_| rr.gen_range(0..p.nf)).collect();
                    if let (Some(got_r), Some(got_c)) = (row_indices(o, p), col_indices(o, p)) {
                        let same = got_r == want_r && got_c == want_c;
                        out.script_honoured = Some(same);
                        if !same {
                            ok[0] = false;
                            cx.fail(
                                "selection_differs_from_gen_range_on_same_generator",
                                format!("{:?}: drew source rows {:?} and columns {:?}, gen_range on the same generator gives rows {:?} and columns {:?}", act, got_r, got_c, want_r, want_c),
                            );
                        }
                    }
                }
            }
        }
        Act::DrawCoverage { features, .. } => {
            let range = if *features { p.nf } else { n };
            if !count_mismatch(&mut cx, res.outs.len(), range, "datasets (one run per index)") {
                let mut drawn: Vec<bool> = vec![false; range];
                let mut decided = true;
                for (d, o) in res.outs.iter().enumerate() {
                    let fine = if *features { cmp_selection(&mut cx, o, p, Sel::All, Sel::Draw(2), "feature-bootstrapped dataset") } else { cmp_selection(&mut cx, o, p, Sel::Draw(2), Sel::All, "bootstrapped dataset") };
                    let got = if *features { col_indices(o, p) } else { row_indices(o, p) };
                    match (fine, got) {
                        (true, Some(g)) => {
                            for &i in &g {
                                drawn[i] = true;
                            }
                            if g != vec![d; 2] {
                                cx.fail("selection_differs_from_gen_range_on_same_generator", format!("generator answering {} to every draw of 0..{}: drew {:?}", d, range, g));
                            }
                        }
                        _ => decided = false,
                    }
                }
                if decided {
                    let never: Vec<usize> = (0..range).filter(|&i| !drawn[i]).collect();
                    if !never.is_empty() {
                        cx.fail(
                            "index_never_drawn",
                            format!("over the {} generators that answer d = 0..{} to every draw, the {} indices {:?} of 0..{} were never drawn (uniform sampling with replacement must be able to draw every one, in particular the last)", range, range - 1, if *features { "feature" } else { "sample" }, never, range),
                        );
                    }
                    out.script_honoured = Some(never.is_empty());
                }
                // coverage runs produce no successors (the same datasets come from the scripted actions)
            }
        }
        Act::WithLabels { labels, .. } => {
            if !count_mismatch(&mut cx, res.outs.len(), 1, "dataset") {
                let keep: Vec<usize> = (0..n).filter(|&i| p.tgt[i].iter().any(|l| labels.contains(l))).collect();
                let mut e = take_rows(p, &keep);
                e.counted = true;
                let o = &res.outs[0];
                ok[0] = cmp_exact(&mut cx, o, &e, true, "filtered dataset");
                // rustdoc of with_labels: "Sample weights and feature names are preserved by this transformation."
                if ok[0] && e.w.is_some() && o.w.is_empty() {
                    cx.fail("weights_dropped", format!("with_labels({:?}) documents that sample weights are preserved; source weights {:?}, result carries none", labels, p.w));
                    ok[0] = false;
                }
                if ok[0] && !e.fnames.is_empty() && o.fnames.is_empty() {
                    cx.fail("feature_names_dropped", format!("with_labels({:?}) documents that feature names are preserved; source names {:?}, result carries none", labels, p.fnames));
                    ok[0] = false;
                }
            }
        }
        Act::OneVsAll { .. } => {
            let mut distinct: Vec<usize> = p.tgt.iter().map(|t| t[0]).collect();
            distinct.sort();
            distinct.dedup();
            let mut got = res.ova_labels.clone();
            got.sort();
            if got != distinct {
                let mut g2 = got.clone();
                g2.dedup();
                let shape = if g2.len() != got.len() { "label_yielded_twice" } else { "wrong_label_set" };
                cx.fail(shape, format!("distinct labels {:?}, one_vs_all yielded views for {:?}", distinct, res.ova_labels));
            } else {
                for (i, o) in res.outs.iter().enumerate() {
                    let l = res.ova_labels[i];
                    let mut e = p.clone();
                    e.counted = true;
                    e.tgt = p.tgt.iter().map(|t| vec![(t[0] == l) as usize]).collect();
                    ok[i] = cmp_exact(&mut cx, o, &e, true, &format!("view for label {}", l));
                }
            }
        }
        Act::MapTargets { .. } => {
            if !count_mismatch(&mut cx, res.outs.len(), 1, "dataset") {
                let mut e = p.clone();
                e.counted = false;
                e.tgt = p.tgt.iter().map(|t| t.iter().map(|x| x + 1).collect()).collect();
                ok[0] = cmp_exact(&mut cx, &res.outs[0], &e, true, "mapped dataset");
            }
        }
        Act::ToOwned { .. } | Act::View => {
            if !count_mismatch(&mut cx, res.outs.len(), 1, "dataset") {
                ok[0] = cmp_exact(&mut cx, &res.outs[0], p, true, "result");
            }
        }
        Act::IntoSingleTarget => {
            if !count_mismatch(&mut cx, res.outs.len(), 1, "dataset") {
                let mut e = p.clone();
                e.t2 = false;
                ok[0] = cmp_exact(&mut cx, &res.outs[0], &e, true, "single-target dataset");
            }
        }
        Act::Chunks { c, .. } => {
            let want = n / c;
            if !count_mismatch(&mut cx, res.outs.len(), want, "chunks") {
                for (i, o) in res.outs.iter().enumerate() {
                    let e = take_rows(p, &all_rows[i * c..(i + 1) * c]);
                    ok[i] = cmp_exact(&mut cx, o, &e, true, &format!("chunk {}", i));
                }
            }
        }
        Act::SampleIter { .. } => {
            if !count_mismatch(&mut cx, res.pairs.len(), n, "samples") {
                for (i, (x, y)) in res.pairs.iter().enumerate() {
                    if x.iter().any(|&t| sample_of(t) == POISON_SAMPLE) || y.iter().any(|&l| l == POISON_LABEL) {
                        cx.fail("records_from_outside_the_array", format!("item {}: ({:?}, {:?}) comes from outside the source arrays", i, x, y));
                        break;
                    }
                    if x != &p.rec[i] {
                        cx.fail("wrong_rows", format!("item {}: expected record {:?}, got {:?}", i, p.rec[i], x));
                        break;
                    }
                    if y != &p.tgt[i] {
                        cx.fail("record_target_misaligned", format!("item {}: record {:?} came with targets {:?}, its own targets are {:?}", i, x, y, p.tgt[i]));
                        break;
                    }
                }
            }
        }
        Act::TargetIter { .. } => {
            if !count_mismatch(&mut cx, res.outs.len(), p.nt, "single-target views") {
                for (j, o) in res.outs.iter().enumerate() {
                    let mut e = p.clone();
                    e.counted = false;
                    e.nt = 1;
                    e.tgt = p.tgt.iter().map(|t| vec![t[j]]).collect();
                    e.tnames = if p.tnames.is_empty() { vec![] } else { vec![p.tnames[j].clone()] };
                    ok[j] = cmp_exact(&mut cx, o, &e, true, &format!("view of target column {}", j));
                }
            }
        }
        Act::FeatureIter { .. } => {
            if !count_mismatch(&mut cx, res.outs.len(), p.nf, "single-feature views") {
                for (j, o) in res.outs.iter().enumerate() {
                    let mut e = p.clone();
                    e.counted = false;
                    e.nf = 1;
                    e.rec = p.rec.iter().map(|r| vec![r[j]]).collect();
                    e.fnames = if p.fnames.is_empty() { vec![] } else { vec![p.fnames[j].clone()] };
                    ok[j] = cmp_exact(&mut cx, o, &e, true, &format!("view of feature column {}", j));
                }
            }
        }
        Act::Fold { k, .. } => {
            let fs = n / k;
            if !count_mismatch(&mut cx, res.outs.len(), 2 * k, "datasets (k training / validation pairs)") {
                for i in 0..*k {
                    let val_rows: Vec<usize> = (i * fs..(i + 1) * fs).collect();
                    let train_rows: Vec<usize> = (0..n).filter(|r| !val_rows.contains(r)).collect();
                    ok[2 * i] = cmp_exact(&mut cx, &res.outs[2 * i], &take_rows(p, &train_rows), false, &format!("training part of fold {}", i));
                    ok[2 * i + 1] = cmp_exact(&mut cx, &res.outs[2 * i + 1], &take_rows(p, &val_rows), true, &format!("validation part of fold {}", i));
                }
            }
        }
    }

    for (i, o) in res.outs.iter().enumerate() {
        if !o.w.is_empty() && o.w.len() == o.n {
            out.carried_weights += 1;
        }
        if !o.fnames.is_empty() {
            out.carried_fnames += 1;
        }
        if ok[i] {
            let mut m = o.to_model();
            // Memory layout of the successor. Results that still are (views of / moved parts of) the
            // source's arrays keep the source's layout: view, split of a view and chunks (record and
            // target views), into_single_target (records moved, targets reshaped in place),
            // map_targets (records and weights moved / cloned with their strides), one_vs_all and the
            // column iterators (record views, weights cloned with their strides). Everything else
            // is freshly allocated: row-major, or column-major where the observation says so.
            let (keep_r, keep_t, keep_w) = match act {
                Act::View => (true, true, true),
                Act::SplitView { .. } | Act::Chunks { .. } => (true, true, false),
                Act::IntoSingleTarget => (true, true, false),
                Act::MapTargets { .. } => (true, false, true),
                Act::OneVsAll { .. } => (true, false, true),
                Act::FeatureIter { .. } | Act::TargetIter { .. } => (true, true, true),
                _ => (false, false, false),
            };
            if keep_r {
                m.lr = p.lr;
            }
            if keep_t {
                m.lt = if !m.t2 && p.lt == Lay::ColMajor { Lay::Std } else { p.lt };
            }
            if keep_w && m.w.is_some() {
                m.lw = p.lw;
            }
            if m.lr == Lay::ColMajor && (m.n() <= 1 || m.nf <= 1) {
                m.lr = Lay::Std;
            }
            if m.lt == Lay::ColMajor && (m.n() <= 1 || m.nt <= 1 || !m.t2) {
                m.lt = Lay::Std;
            }
            m.ltype = if matches!(act, Act::OneVsAll { .. }) && p.ltype != "usize" { "bool".to_string() } else { p.ltype.clone() };
            if m.n() > 0 && (m.rec != p.rec || m.tgt != p.tgt) {
                out.effective = true;
            }
            out.succ.push(m);
        }
    }
    if matches!(act, Act::SampleIter { .. }) && n > 0 {
        out.effective = true;
    }
    out.viols = cx.v;
    out
}
