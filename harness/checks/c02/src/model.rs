//! Reference side of C02: the tagged-row model of a dataset, the action alphabet, the uniform
//! observation of a real linfa dataset, and the scripted random number generator.

use linfa::dataset::{AsTargets, CountedTargets, Label, Labels};
use linfa::DatasetBase;
use ndarray::{s, Array1, Array2, ArrayBase, Data, Ix2, RawData, ShapeBuilder};
use serde::{Deserialize, Serialize};
use std::collections::BTreeMap;

/// Split ratios of the alphabet (f32, as the API takes them).
pub const RATIOS: [f32; 6] = [0.0, 0.25, 1.0 / 3.0, 0.5, 0.7, 1.0];

/// A dataset as a plain vector of tagged rows. Record entry (row i, column j) of a seed is the
/// identity tag 100*(i+1)+j, so `tag / 100` names the original sample and `tag % 100` the original
/// feature wherever the value ends up. Weights of a seed are 0.5+i (identify the sample too).
#[derive(Clone, Debug, Serialize, Deserialize, PartialEq)]
pub struct Model {
    pub nf: usize,
    /// number of target columns (1 for one-dimensional targets)
    pub nt: usize,
    /// targets are two-dimensional
    pub t2: bool,
    /// targets are wrapped in `CountedTargets` (cached label counts)
    pub counted: bool,
    /// hidden state: how the record / target / weight arrays lie in memory (see `Lay`). Decides what
    /// code that looks at raw buffers, `as_slice*` or `is_standard_layout` sees; the owned split
    /// documents a panic for records / targets that are not row-major.
    #[serde(default)]
    pub lr: Lay,
    #[serde(default)]
    pub lt: Lay,
    #[serde(default)]
    pub lw: Lay,
    /// element type of the targets in the real dataset: "usize" | "bool" | "str" (&'static str) |
    /// "string" (String, not Copy) | "i64" (signed, not a `Label`); labels are codes in the model
    #[serde(default = "default_ltype")]
    pub ltype: String,
    pub rec: Vec<Vec<f64>>,
    pub tgt: Vec<Vec<usize>>,
    /// `Some` (length n > 0) iff the dataset carries weights
    pub w: Option<Vec<f32>>,
    pub fnames: Vec<String>,
    pub tnames: Vec<String>,
}

fn default_ltype() -> String {
    "usize".to_string()
}

/// Memory layout of one container of the real dataset. All of them hold the same logical values.
#[derive(Clone, Copy, Debug, Serialize, Deserialize, PartialEq, Eq, Default)]
pub enum Lay {
    /// freshly allocated row-major array
    #[default]
    Std,
    /// column-major owned array (`.f()`; the same strides as the transposed view of a feature-major array)
    ColMajor,
    /// `slice_move` out of a larger allocation: PAD_LEAD poison rows in front, PAD_TRAIL behind (still row-major)
    Sliced,
    /// reversed rows of a reversed copy (negative row stride)
    Reversed,
    /// every second row of an allocation of 2n rows whose other rows hold poison
    EverySecond,
}

impl Lay {
    /// `is_standard_layout()` of an array of `n` rows x `cols` columns in this layout is false
    pub fn not_row_major(self, n: usize, cols: usize) -> bool {
        match self {
            Lay::Std | Lay::Sliced => false,
            Lay::ColMajor => n > 1 && cols > 1,
            Lay::Reversed | Lay::EverySecond => n > 1,
        }
    }
}

/// Rows of the allocation in front of / behind a sliced owned array.
pub const PAD_LEAD: usize = 2;
pub const PAD_TRAIL: usize = 1;
/// Poison values filling the part of an allocation outside the array: record tag -(100+j) (sample
/// id -1), label code 77, weight -7.5. None of them can be produced by an operation of the alphabet
/// from in-array data.
pub const POISON_SAMPLE: i64 = -1;
pub const POISON_LABEL: usize = 77;
pub const POISON_WEIGHT: f32 = -7.5;
pub fn poison_tag(j: usize) -> f64 {
    -((100 + j) as f64)
}

/// Two-dimensional array with the given logical rows in the given layout.
pub fn lay2<T: Clone>(rows: &[Vec<T>], cols: usize, lay: Lay, poison: &dyn Fn(usize) -> T) -> Array2<T> {
    let n = rows.len();
    let prow = || (0..cols).map(poison);
    match lay {
        Lay::Std => Array2::from_shape_vec((n, cols), rows.iter().flatten().cloned().collect()).unwrap(),
        Lay::ColMajor => {
            let mut v = Vec::with_capacity(n * cols);
            for j in 0..cols {
                for r in rows {
                    v.push(r[j].clone());
                }
            }
            Array2::from_shape_vec((n, cols).f(), v).unwrap()
        }
        Lay::Sliced => {
            let mut v: Vec<T> = Vec::with_capacity((n + PAD_LEAD + PAD_TRAIL) * cols);
            for _ in 0..PAD_LEAD {
                v.extend(prow());
            }
            v.extend(rows.iter().flatten().cloned());
            for _ in 0..PAD_TRAIL {
                v.extend(prow());
            }
            Array2::from_shape_vec((n + PAD_LEAD + PAD_TRAIL, cols), v).unwrap().slice_move(s![PAD_LEAD..PAD_LEAD + n, ..])
        }
        Lay::Reversed => {
            let v: Vec<T> = rows.iter().rev().flatten().cloned().collect();
            Array2::from_shape_vec((n, cols), v).unwrap().slice_move(s![..;-1, ..])
        }
        Lay::EverySecond => {
            let mut v: Vec<T> = Vec::with_capacity(2 * n * cols);
            for r in rows {
                v.extend(r.iter().cloned());
                v.extend(prow());
            }
            Array2::from_shape_vec((2 * n, cols), v).unwrap().slice_move(s![..;2, ..])
        }
    }
}

/// One-dimensional array with the given logical values in the given layout (ColMajor = Std).
pub fn lay1<T: Clone>(vals: &[T], lay: Lay, poison: T) -> Array1<T> {
    let n = vals.len();
    match lay {
        Lay::Std | Lay::ColMajor => Array1::from(vals.to_vec()),
        Lay::Sliced => {
            let mut v = vec![poison.clone(); PAD_LEAD];
            v.extend(vals.iter().cloned());
            v.extend(vec![poison; PAD_TRAIL]);
            Array1::from(v).slice_move(s![PAD_LEAD..PAD_LEAD + n])
        }
        Lay::Reversed => Array1::from(vals.iter().rev().cloned().collect::<Vec<T>>()).slice_move(s![..;-1]),
        Lay::EverySecond => {
            let mut v = Vec::with_capacity(2 * n);
            for x in vals {
                v.push(x.clone());
                v.push(poison.clone());
            }
            Array1::from(v).slice_move(s![..;2])
        }
    }
}

impl Model {
    pub fn n(&self) -> usize {
        self.rec.len()
    }
    /// original sample id of row i (decoded from the identity tag); None without feature columns
    pub fn sid(&self, i: usize) -> Option<i64> {
        self.rec[i].first().map(|&t| sample_of(t))
    }
    /// Canonical bytes: every observable field plus the layout flag.
    pub fn canon(&self) -> Vec<u8> {
        let mut b: Vec<u8> = Vec::with_capacity(32 + self.n() * (self.nf * 2 + self.nt + 4));
        b.push(self.nf as u8);
        b.push(self.nt as u8);
        b.push(self.t2 as u8 | (self.counted as u8) << 1 | (self.w.is_some() as u8) << 3);
        b.push(self.n() as u8);
        b.push(self.lr as u8);
        b.push(self.lt as u8);
        b.push(self.lw as u8);
        b.extend_from_slice(self.ltype.as_bytes());
        b.push(0);
        for r in &self.rec {
            for &x in r {
                b.extend_from_slice(&(x as f32).to_bits().to_le_bytes());
            }
        }
        for t in &self.tgt {
            for &x in t {
                b.extend_from_slice(&(x as u16).to_le_bytes());
            }
        }
        if let Some(w) = &self.w {
            for &x in w {
                b.extend_from_slice(&x.to_bits().to_le_bytes());
            }
        }
        for s in self.fnames.iter().chain(std::iter::once(&"|".to_string())).chain(self.tnames.iter()) {
            b.extend_from_slice(s.as_bytes());
            b.push(0);
        }
        b
    }
}

pub fn sample_of(tag: f64) -> i64 {
    (tag as i64) / 100
}
pub fn feature_of(tag: f64) -> i64 {
    (tag as i64) % 100
}

/// The seeds (initial states). `labelling`: "cyc" = i mod 3, "id" = i (all distinct).
pub fn seed(n: usize, nf: usize, targets: &str, labelling: &str, weights: bool, names: bool) -> Model {
    // "cyc": i mod 3; "id": i (all distinct); "bin": i mod 2 (two-valued element types)
    let lab = |i: usize| match labelling {
        "id" => i,
        "bin" => i % 2,
        _ => i % 3,
    };
    let second = |i: usize| if labelling == "bin" { (i / 2) % 2 } else { (i / 2) % 3 };
    let (t2, nt) = match targets {
        "ix1" => (false, 1),
        "ix2x1" => (true, 1),
        "ix2x2" => (true, 2),
        _ => panic!("bad target kind"),
    };
    Model {
        nf,
        nt,
        t2,
        counted: false,
        lr: Lay::Std,
        lt: Lay::Std,
        lw: Lay::Std,
        ltype: default_ltype(),
        rec: (0..n).map(|i| (0..nf).map(|j| (100 * (i + 1) + j) as f64).collect()).collect(),
        // second target column: i div 2 mod 3, so that the pairs (col0, col1) are distinct for n <= 6
        tgt: (0..n).map(|i| if nt == 2 { vec![lab(i), second(i)] } else { vec![lab(i)] }).collect(),
        w: if weights && n > 0 { Some((0..n).map(|i| 0.5 + i as f32).collect()) } else { None },
        fnames: if names { (0..nf).map(|j| format!("f{}", j)).collect() } else { vec![] },
        tnames: if names { (0..nt).map(|c| format!("t{}", c)).collect() } else { vec![] },
    }
}

/// Weight vectors with exact zeros / ties: "one_zero" (sample 0 has weight 0), "class_zero" (every
/// sample whose first target is 1 has weight 0), "all_zero", "all_one"; others keep 0.5 + i.
pub fn with_weight_pattern(mut m: Model, pattern: &str) -> Model {
    let n = m.n();
    if n == 0 {
        return m;
    }
    let base = |i: usize| 0.5 + i as f32;
    m.w = Some(
        (0..n)
            .map(|i| match pattern {
                "one_zero" => {
                    if i == 0 {
                        0.0
                    } else {
                        base(i)
                    }
                }
                "class_zero" => {
                    if m.tgt[i][0] == 1 {
                        0.0
                    } else {
                        base(i)
                    }
                }
                "all_zero" => 0.0,
                "all_one" => 1.0,
                _ => base(i),
            })
            .collect(),
    );
    m
}

/// The action alphabet. `view: true` applies the operation to `.view()` of the dataset.
#[derive(Clone, Debug, Serialize, Deserialize, PartialEq)]
pub enum Act {
    SplitOwned { r: usize },
    SplitView { r: usize },
    /// `raw: false`: script[k] is the wanted result of the k-th bounded draw; `raw: true`: script[k]
    /// is the k-th raw 64-bit word the generator hands out (zero words when the script is used up)
    Shuffle {
        view: bool,
        script: Vec<usize>,
        #[serde(default)]
        raw: bool,
    },
    BootSamples {
        view: bool,
        m: usize,
        items: usize,
        script: Vec<usize>,
        #[serde(default)]
        raw: bool,
    },
    BootFeatures {
        view: bool,
        q: usize,
        items: usize,
        script: Vec<usize>,
        #[serde(default)]
        raw: bool,
    },
    Boot {
        view: bool,
        m: usize,
        q: usize,
        script: Vec<usize>,
        #[serde(default)]
        raw: bool,
    },
    /// bootstrap_samples(2) / bootstrap_features(2) once per index d with the generator answering d
    /// to every draw: every sample / feature index must be drawn by some run
    DrawCoverage { view: bool, features: bool },
    WithLabels { view: bool, labels: Vec<usize> },
    OneVsAll { view: bool },
    MapTargets { view: bool },
    ToOwned { view: bool },
    View,
    IntoSingleTarget,
    Chunks { view: bool, c: usize },
    SampleIter { view: bool },
    TargetIter { view: bool },
    FeatureIter { view: bool },
    Fold { view: bool, k: usize },
}

impl Act {
    pub fn op(&self) -> &'static str {
        match self {
            Act::SplitOwned { .. } => "split_owned",
            Act::SplitView { .. } => "split_view",
            Act::Shuffle { .. } => "shuffle",
            Act::BootSamples { .. } => "bootstrap_samples",
            Act::BootFeatures { .. } => "bootstrap_features",
            Act::Boot { .. } => "bootstrap",
            Act::WithLabels { .. } => "with_labels",
            Act::OneVsAll { .. } => "one_vs_all",
            Act::MapTargets { .. } => "map_targets",
            Act::ToOwned { .. } => "to_owned",
            Act::View => "view",
            Act::IntoSingleTarget => "into_single_target",
            Act::Chunks { .. } => "sample_chunks",
            Act::SampleIter { .. } => "sample_iter",
            Act::TargetIter { .. } => "target_iter",
            Act::FeatureIter { .. } => "feature_iter",
            Act::Fold { .. } => "fold",
            Act::DrawCoverage { features: false, .. } => "bootstrap_samples",
            Act::DrawCoverage { features: true, .. } => "bootstrap_features",
        }
    }
    pub const OPS: [&'static str; 17] = [
        "split_owned",
        "split_view",
        "shuffle",
        "bootstrap_samples",
        "bootstrap_features",
        "bootstrap",
        "with_labels",
        "one_vs_all",
        "map_targets",
        "to_owned",
        "view",
        "into_single_target",
        "sample_chunks",
        "sample_iter",
        "target_iter",
        "feature_iter",
        "fold",
    ];
    pub fn on_view(&self) -> bool {
        match self {
            Act::SplitView { .. } | Act::View => true,
            Act::Shuffle { view, .. }
            | Act::BootSamples { view, .. }
            | Act::BootFeatures { view, .. }
            | Act::Boot { view, .. }
            | Act::WithLabels { view, .. }
            | Act::OneVsAll { view }
            | Act::MapTargets { view }
            | Act::ToOwned { view }
            | Act::Chunks { view, .. }
            | Act::SampleIter { view }
            | Act::TargetIter { view }
            | Act::FeatureIter { view }
            | Act::DrawCoverage { view, .. }
            | Act::Fold { view, .. } => *view,
            _ => false,
        }
    }
}

// ------------------------------------------------------------------------------------------------
// the real datasets

// ------------------------------------------------------------------------------------------------
// uniform observation of any dataset value through the public accessors

#[derive(Clone, Debug, PartialEq)]
pub struct Obs {
    pub n: usize,
    pub nf: usize,
    pub rec: Vec<Vec<f64>>,
    pub colmajor: bool,
    /// the target array is not in row-major standard layout
    pub t_nonstd: bool,
    /// number of rows of the target array (must equal n)
    pub tn: usize,
    pub nt: usize,
    pub t2: bool,
    pub tgt: Vec<Vec<usize>>,
    /// raw weight vector (public field), whatever its length
    pub w: Vec<f32>,
    /// length reported by the `weights()` accessor (Err = the accessor panicked)
    pub w_accessor: Result<Option<usize>, String>,
    /// the weight array is not contiguous in memory
    pub w_strided: bool,
    pub fnames: Vec<String>,
    pub tnames: Vec<String>,
    /// `label_count()` as reported by the value
    pub counts: Vec<BTreeMap<usize, usize>>,
    pub counted: bool,
    /// what the label accessors of the value report (None: element type without labels):
    /// `labels()` (method call syntax, as a user writes it; sorted), `label_set()` per target
    /// column (sorted), `label_frequencies()`
    pub acc: Option<LabelAccessors>,
}

#[derive(Clone, Debug, PartialEq)]
pub struct LabelAccessors {
    pub labels: Vec<usize>,
    pub label_sets: Vec<Vec<usize>>,
    pub freqs: BTreeMap<usize, f32>,
}

/// Element types of the targets: the model holds label codes, the real dataset holds `enc(code)`.
pub trait Lab: Clone + 'static {
    fn enc(c: usize) -> Self;
    fn code(&self) -> usize;
    /// the function given to `map_targets`: code + 1
    fn bump(&self) -> Self {
        Self::enc(self.code() + 1)
    }
}
impl Lab for usize {
    fn enc(c: usize) -> Self {
        c
    }
    fn code(&self) -> usize {
        *self
    }
}
impl Lab for bool {
    fn enc(c: usize) -> Self {
        c != 0
    }
    fn code(&self) -> usize {
        *self as usize
    }
}
impl Lab for i64 {
    // signed: codes 0.. are the values -3, -2, -1, 0, 1, ..
    fn enc(c: usize) -> Self {
        c as i64 - 3
    }
    fn code(&self) -> usize {
        (*self + 3) as usize
    }
}
impl Lab for String {
    fn enc(c: usize) -> Self {
        format!("l{}", c)
    }
    fn code(&self) -> usize {
        self[1..].parse().unwrap()
    }
}
fn str_table() -> &'static Vec<&'static str> {
    static T: std::sync::OnceLock<Vec<&'static str>> = std::sync::OnceLock::new();
    T.get_or_init(|| (0..128).map(|c| &*Box::leak(format!("l{}", c).into_boxed_str())).collect())
}
impl Lab for &'static str {
    fn enc(c: usize) -> Self {
        str_table()[c]
    }
    fn code(&self) -> usize {
        self[1..].parse().unwrap()
    }
}

pub trait TKind {
    const COUNTED: bool;
}
impl<S: RawData, I> TKind for ArrayBase<S, I> {
    const COUNTED: bool = false;
}
impl<L: Label, P> TKind for CountedTargets<L, P> {
    const COUNTED: bool = true;
}

fn observe_core<L, D, T>(ds: &DatasetBase<ArrayBase<D, Ix2>, T>, counts: Option<Vec<BTreeMap<usize, usize>>>) -> Obs
where
    L: Lab,
    D: Data<Elem = f64>,
    T: AsTargets<Elem = L> + TKind,
{
    let r = ds.records();
    let (n, nf) = r.dim();
    let rec: Vec<Vec<f64>> = (0..n).map(|i| (0..nf).map(|j| r[(i, j)]).collect()).collect();
    let colmajor = !r.is_standard_layout();
    let t0 = ds.as_targets();
    let t_nonstd = !t0.is_standard_layout();
    let t = t0.into_dyn();
    let (t2, tn, nt, tgt): (bool, usize, usize, Vec<Vec<usize>>) = match t.ndim() {
        1 => (false, t.len(), 1, t.iter().map(|x| vec![x.code()]).collect()),
        2 => {
            let (a, b) = (t.shape()[0], t.shape()[1]);
            (true, a, b, (0..a).map(|i| (0..b).map(|j| t[[i, j]].code()).collect()).collect())
        }
        _ => unreachable!(),
    };
    let counts = counts.unwrap_or_else(|| {
        // element type without label counting: nothing to compare, the recount stands in
        let mut c = vec![BTreeMap::new(); nt];
        for row in &tgt {
            for (j, &l) in row.iter().enumerate() {
                *c[j].entry(l).or_insert(0) += 1;
            }
        }
        c
    });
    Obs {
        n,
        nf,
        rec,
        colmajor,
        t_nonstd,
        tn,
        nt,
        t2,
        tgt,
        w: ds.weights.iter().cloned().collect(),
        w_accessor: lvmc_core::guarded(|| ds.weights().map(|s| s.len())),
        w_strided: ds.weights.as_slice().is_none(),
        fnames: ds.feature_names().to_vec(),
        tnames: ds.target_names().to_vec(),
        counts,
        counted: T::COUNTED,
        acc: None,
    }
}

/// Observation of a dataset whose target elements are labels (label counts included).
pub fn observe<L, D, T>(ds: &DatasetBase<ArrayBase<D, Ix2>, T>) -> Obs
where
    L: Lab + Label,
    D: Data<Elem = f64>,
    T: AsTargets<Elem = L> + Labels<Elem = L> + TKind,
{
    let counts = ds.label_count().into_iter().map(|m| m.into_iter().map(|(k, v)| (k.code(), v)).collect()).collect();
    let mut o = observe_core(ds, Some(counts));
    let mut labels: Vec<usize> = ds.labels().iter().map(|l| l.code()).collect();
    labels.sort();
    let label_sets = ds
        .label_set()
        .into_iter()
        .map(|set| {
            let mut v: Vec<usize> = set.iter().map(|l| l.code()).collect();
            v.sort();
            v
        })
        .collect();
    let freqs = ds.label_frequencies().into_iter().map(|(k, v)| (k.code(), v)).collect();
    o.acc = Some(LabelAccessors { labels, label_sets, freqs });
    o
}

/// Observation of a dataset whose target elements are not labels (signed integers).
pub fn observe_plain<L, D, T>(ds: &DatasetBase<ArrayBase<D, Ix2>, T>) -> Obs
where
    L: Lab,
    D: Data<Elem = f64>,
    T: AsTargets<Elem = L> + TKind,
{
    observe_core(ds, None)
}

impl Obs {
    /// The model state of an observed (and verified) dataset value.
    pub fn to_model(&self) -> Model {
        Model {
            nf: self.nf,
            nt: self.nt,
            t2: self.t2,
            counted: self.counted,
            lr: if self.colmajor { Lay::ColMajor } else { Lay::Std },
            lt: if self.t_nonstd { Lay::ColMajor } else { Lay::Std },
            lw: Lay::Std,
            ltype: default_ltype(),
            rec: self.rec.clone(),
            tgt: self.tgt.clone(),
            w: if !self.w.is_empty() && self.w.len() == self.n { Some(self.w.clone()) } else { None },
            fnames: self.fnames.clone(),
            tnames: self.tnames.clone(),
        }
    }
}

// ------------------------------------------------------------------------------------------------
// scripted random number generator

/// Scripted generator. Bucket mode (`raw: false`) answers the k-th bounded draw
/// `gen_range(0..range_k)` of rand 0.8 with the scripted value: rand maps a raw word v to
/// `(v * range) >> bits` (widening multiply, u32 words for slice shuffling, u64 words for
/// `gen_range` over usize), so v = floor(k * 2^bits / range) + 1 lands in bucket k and is never
/// rejected. Raw mode hands out the scripted 64-bit words themselves (the high half for a 32-bit
/// request) and zero words once the script is used up (so rejection loops end).
/// The oracle does not rely on the bucket formula: the reference indices are computed by running
/// rand's own `gen_range` / `shuffle` on an identical generator (lock-step).
#[derive(Clone)]
pub struct ScriptRng {
    pub draws: Vec<(usize, usize)>, // bucket mode: (wanted value, range); raw mode: (word, _)
    pub raw: bool,
    pub cursor: usize,
    pub overrun: bool,
}

impl ScriptRng {
    pub fn new(draws: Vec<(usize, usize)>, raw: bool) -> Self {
        ScriptRng { draws, raw, cursor: 0, overrun: false }
    }
    fn next(&mut self) -> Option<(usize, usize)> {
        let d = self.draws.get(self.cursor).cloned();
        self.cursor += 1;
        if d.is_none() {
            self.overrun = true;
        }
        d
    }
    pub fn exact(&self) -> bool {
        !self.overrun && self.cursor == self.draws.len()
    }
}

impl rand::RngCore for ScriptRng {
    fn next_u32(&mut self) -> u32 {
        match self.next() {
            Some((w, _)) if self.raw => ((w as u64) >> 32) as u32,
            Some((k, range)) if range > 0 => ((((k as u64) << 32) / range as u64) + 1) as u32,
            _ => 0,
        }
    }
    fn next_u64(&mut self) -> u64 {
        match self.next() {
            Some((w, _)) if self.raw => w as u64,
            Some((k, range)) if range > 0 => ((((k as u128) << 64) / range as u128) + 1) as u64,
            _ => 0,
        }
    }
    fn fill_bytes(&mut self, dest: &mut [u8]) {
        for chunk in dest.chunks_mut(8) {
            let w = self.next_u64().to_le_bytes();
            chunk.copy_from_slice(&w[..chunk.len()]);
        }
    }
    fn try_fill_bytes(&mut self, dest: &mut [u8]) -> Result<(), rand::Error> {
        self.fill_bytes(dest);
        Ok(())
    }
}

/// The generator of a scripted action on a dataset of n samples x nf features.
pub fn script_rng(act: &Act, n: usize, nf: usize) -> ScriptRng {
    match act {
        Act::Shuffle { script, raw, .. } => {
            if *raw {
                ScriptRng::new(script.iter().map(|&w| (w, 0)).collect(), true)
            } else {
                ScriptRng::new(shuffle_draws(n, script), false)
            }
        }
        Act::BootSamples { script, raw, .. } => ScriptRng::new(script.iter().map(|&k| (k, n)).collect(), *raw),
        Act::BootFeatures { script, raw, .. } => ScriptRng::new(script.iter().map(|&k| (k, nf)).collect(), *raw),
        Act::Boot { m, script, raw, .. } => ScriptRng::new(script.iter().enumerate().map(|(i, &k)| (k, if i < *m { n } else { nf })).collect(), *raw),
        _ => ScriptRng::new(vec![], false),
    }
}

/// Draw list of `shuffle` on n rows (Fisher-Yates from the back: ranges n, n-1, .., 2).
pub fn shuffle_draws(n: usize, script: &[usize]) -> Vec<(usize, usize)> {
    (0..n.saturating_sub(1)).map(|k| (script.get(k).cloned().unwrap_or(0), n - k)).collect()
}

/// The permutation rand's Fisher-Yates produces for a script (used only to measure whether the
/// script was honoured): position -> source row.
pub fn shuffle_perm(n: usize, script: &[usize]) -> Vec<usize> {
    let mut idx: Vec<usize> = (0..n).collect();
    for (k, i) in (1..n).rev().enumerate() {
        idx.swap(i, script.get(k).cloned().unwrap_or(0));
    }
    idx
}
