//! Reference side of C02: the tagged-row model of a dataset, the action alphabet, the uniform
//! observation of a real linfa dataset, and the scripted random number generator.

use linfa::dataset::{AsTargets, CountedTargets, Label, Labels};
use linfa::{Dataset, DatasetBase};
use ndarray::{s, Array1, Array2, ArrayBase, Data, Ix1, Ix2, RawData, ShapeBuilder};
use serde::{Deserialize, Serialize};
use std::collections::BTreeMap;

/// Split ratios of the alphabet (f32, as the API takes them).
pub const RATIOS: [f32; 6] = [0.0, 0.25, 1.0 / 3.0, 0.5, 0.7, 1.0];

/// A dataset as a plain vector of tagged rows. Record entry (row i, column j) of a seed is the
/// identity tag 100*(i+1)+j, so `tag / 100` names the original sample and `tag % 100` the original
/// feature wherever the value ends up. Weights of a seed are 0.5+i (identify the sample too).
#[derive(Clone, Debug, Serialize, Deserialize, PartialEq)]
pub struct Model {
    pub nf: usize,
    /// number of target columns (1 for one-dimensional targets)
    pub nt: usize,
    /// targets are two-dimensional
    pub t2: bool,
    /// targets are wrapped in `CountedTargets` (cached label counts)
    pub counted: bool,
    /// the record buffer is column-major (the only hidden state of an owned dataset: produced by
    /// `select(Axis(1), ..)`; decides whether the owned split panics as documented)
    pub colmajor: bool,
    /// second kind of hidden state: the owned record / target / weight array is a `slice_move` out
    /// of a larger allocation (PAD_LEAD rows of poison before it, PAD_TRAIL after it; still
    /// row-major standard layout). Decides what `into_raw_vec`-based code sees.
    #[serde(default)]
    pub pad_rec: bool,
    #[serde(default)]
    pub pad_tgt: bool,
    #[serde(default)]
    pub pad_w: bool,
    pub rec: Vec<Vec<f64>>,
    pub tgt: Vec<Vec<usize>>,
    /// `Some` (length n > 0) iff the dataset carries weights
    pub w: Option<Vec<f32>>,
    pub fnames: Vec<String>,
    pub tnames: Vec<String>,
}

/// Rows of the allocation in front of / behind a sliced owned array.
pub const PAD_LEAD: usize = 2;
pub const PAD_TRAIL: usize = 1;
/// Poison values filling the part of the allocation outside the array: sample id 99, label 77,
/// weight 990.5. None of them can be produced by an operation of the alphabet from in-array data.
pub const POISON_SAMPLE: i64 = 99;
pub const POISON_LABEL: usize = 77;
pub const POISON_WEIGHT: f32 = 990.5;
pub fn poison_tag(j: usize) -> f64 {
    (100 * POISON_SAMPLE as usize + j) as f64
}

impl Model {
    pub fn n(&self) -> usize {
        self.rec.len()
    }
    /// original sample id of row i (decoded from the identity tag); None without feature columns
    pub fn sid(&self, i: usize) -> Option<i64> {
        self.rec[i].first().map(|&t| sample_of(t))
    }
    /// Canonical bytes: every observable field plus the layout flag.
    pub fn canon(&self) -> Vec<u8> {
        let mut b: Vec<u8> = Vec::with_capacity(32 + self.n() * (self.nf * 2 + self.nt + 4));
        b.push(self.nf as u8);
        b.push(self.nt as u8);
        b.push(self.t2 as u8 | (self.counted as u8) << 1 | (self.colmajor as u8) << 2 | (self.w.is_some() as u8) << 3);
        b.push(self.n() as u8);
        b.push(self.pad_rec as u8 | (self.pad_tgt as u8) << 1 | (self.pad_w as u8) << 2);
        for r in &self.rec {
            for &x in r {
                b.extend_from_slice(&(x as f32).to_bits().to_le_bytes());
            }
        }
        for t in &self.tgt {
            for &x in t {
                b.extend_from_slice(&(x as u16).to_le_bytes());
            }
        }
        if let Some(w) = &self.w {
            for &x in w {
                b.extend_from_slice(&x.to_bits().to_le_bytes());
            }
        }
        for s in self.fnames.iter().chain(std::iter::once(&"|".to_string())).chain(self.tnames.iter()) {
            b.extend_from_slice(s.as_bytes());
            b.push(0);
        }
        b
    }
}

pub fn sample_of(tag: f64) -> i64 {
    (tag as i64) / 100
}
pub fn feature_of(tag: f64) -> i64 {
    (tag as i64) % 100
}

/// The seeds (initial states). `labelling`: "cyc" = i mod 3, "id" = i (all distinct).
pub fn seed(n: usize, nf: usize, targets: &str, labelling: &str, weights: bool, names: bool) -> Model {
    let lab = |i: usize| if labelling == "id" { i } else { i % 3 };
    let (t2, nt) = match targets {
        "ix1" => (false, 1),
        "ix2x1" => (true, 1),
        "ix2x2" => (true, 2),
        _ => panic!("bad target kind"),
    };
    Model {
        nf,
        nt,
        t2,
        counted: false,
        colmajor: false,
        pad_rec: false,
        pad_tgt: false,
        pad_w: false,
        rec: (0..n).map(|i| (0..nf).map(|j| (100 * (i + 1) + j) as f64).collect()).collect(),
        // second target column: i div 2 mod 3, so that the pairs (col0, col1) are distinct for n <= 6
        tgt: (0..n).map(|i| if nt == 2 { vec![lab(i), (i / 2) % 3] } else { vec![lab(i)] }).collect(),
        w: if weights && n > 0 { Some((0..n).map(|i| 0.5 + i as f32).collect()) } else { None },
        fnames: if names { (0..nf).map(|j| format!("f{}", j)).collect() } else { vec![] },
        tnames: if names { (0..nt).map(|c| format!("t{}", c)).collect() } else { vec![] },
    }
}

/// The action alphabet. `view: true` applies the operation to `.view()` of the dataset.
#[derive(Clone, Debug, Serialize, Deserialize, PartialEq)]
pub enum Act {
    SplitOwned { r: usize },
    SplitView { r: usize },
    Shuffle { view: bool, script: Vec<usize> },
    BootSamples { view: bool, m: usize, items: usize, script: Vec<usize> },
    BootFeatures { view: bool, q: usize, items: usize, script: Vec<usize> },
    Boot { view: bool, m: usize, q: usize, script: Vec<usize> },
    WithLabels { view: bool, labels: Vec<usize> },
    OneVsAll { view: bool },
    MapTargets { view: bool },
    ToOwned { view: bool },
    View,
    IntoSingleTarget,
    Chunks { view: bool, c: usize },
    SampleIter { view: bool },
    TargetIter { view: bool },
    FeatureIter { view: bool },
    Fold { view: bool, k: usize },
}

impl Act {
    pub fn op(&self) -> &'static str {
        match self {
            Act::SplitOwned { .. } => "split_owned",
            Act::SplitView { .. } => "split_view",
            Act::Shuffle { .. } => "shuffle",
            Act::BootSamples { .. } => "bootstrap_samples",
            Act::BootFeatures { .. } => "bootstrap_features",
            Act::Boot { .. } => "bootstrap",
            Act::WithLabels { .. } => "with_labels",
            Act::OneVsAll { .. } => "one_vs_all",
            Act::MapTargets { .. } => "map_targets",
            Act::ToOwned { .. } => "to_owned",
            Act::View => "view",
            Act::IntoSingleTarget => "into_single_target",
            Act::Chunks { .. } => "sample_chunks",
            Act::SampleIter { .. } => "sample_iter",
            Act::TargetIter { .. } => "target_iter",
            Act::FeatureIter { .. } => "feature_iter",
            Act::Fold { .. } => "fold",
        }
    }
    pub const OPS: [&'static str; 17] = [
        "split_owned",
        "split_view",
        "shuffle",
        "bootstrap_samples",
        "bootstrap_features",
        "bootstrap",
        "with_labels",
        "one_vs_all",
        "map_targets",
        "to_owned",
        "view",
        "into_single_target",
        "sample_chunks",
        "sample_iter",
        "target_iter",
        "feature_iter",
        "fold",
    ];
    pub fn on_view(&self) -> bool {
        match self {
            Act::SplitView { .. } | Act::View => true,
            Act::Shuffle { view, .. }
            | Act::BootSamples { view, .. }
            | Act::BootFeatures { view, .. }
            | Act::Boot { view, .. }
            | Act::WithLabels { view, .. }
            | Act::OneVsAll { view }
            | Act::MapTargets { view }
            | Act::ToOwned { view }
            | Act::Chunks { view, .. }
            | Act::SampleIter { view }
            | Act::TargetIter { view }
            | Act::FeatureIter { view }
            | Act::Fold { view, .. } => *view,
            _ => false,
        }
    }
}

// ------------------------------------------------------------------------------------------------
// the real datasets

pub type P1 = Dataset<f64, usize, Ix1>;
pub type P2 = Dataset<f64, usize, Ix2>;
pub type C1 = DatasetBase<Array2<f64>, CountedTargets<usize, Array1<usize>>>;
pub type C2 = DatasetBase<Array2<f64>, CountedTargets<usize, Array2<usize>>>;

pub enum Live {
    P1(P1),
    P2(P2),
    C1(C1),
    C2(C2),
}

/// Builds the real linfa dataset of a model state through the plain constructors (trusted base:
/// `DatasetBase::new`, `with_weights`, `with_feature_names`, `with_target_names`, `CountedTargets::new`).
pub fn build(m: &Model) -> Live {
    let n = m.n();
    let records: Array2<f64> = if m.colmajor {
        let mut v = Vec::with_capacity(n * m.nf);
        for j in 0..m.nf {
            for i in 0..n {
                v.push(m.rec[i][j]);
            }
        }
        Array2::from_shape_vec((n, m.nf).f(), v).unwrap()
    } else if m.pad_rec {
        let mut v: Vec<f64> = Vec::with_capacity((n + PAD_LEAD + PAD_TRAIL) * m.nf);
        for _ in 0..PAD_LEAD {
            v.extend((0..m.nf).map(poison_tag));
        }
        v.extend(m.rec.iter().flatten().cloned());
        for _ in 0..PAD_TRAIL {
            v.extend((0..m.nf).map(poison_tag));
        }
        Array2::from_shape_vec((n + PAD_LEAD + PAD_TRAIL, m.nf), v).unwrap().slice_move(s![PAD_LEAD..PAD_LEAD + n, ..])
    } else {
        Array2::from_shape_vec((n, m.nf), m.rec.iter().flatten().cloned().collect()).unwrap()
    };
    let w: Array1<f32> = match &m.w {
        Some(w) if m.pad_w => {
            let mut v = vec![POISON_WEIGHT; PAD_LEAD];
            v.extend(w.iter().cloned());
            v.extend(vec![POISON_WEIGHT; PAD_TRAIL]);
            Array1::from(v).slice_move(s![PAD_LEAD..PAD_LEAD + n])
        }
        Some(w) => Array1::from(w.clone()),
        None => Array1::zeros(0),
    };
    let mut flat: Vec<usize> = m.tgt.iter().flatten().cloned().collect();
    let tn = if m.pad_tgt {
        let mut v = vec![POISON_LABEL; PAD_LEAD * m.nt];
        v.extend(flat.iter().cloned());
        v.extend(vec![POISON_LABEL; PAD_TRAIL * m.nt]);
        flat = v;
        n + PAD_LEAD + PAD_TRAIL
    } else {
        n
    };
    macro_rules! finish {
        ($ds:expr) => {
            $ds.with_weights(w).with_feature_names(m.fnames.clone()).with_target_names(m.tnames.clone())
        };
    }
    if m.t2 {
        let mut t = Array2::from_shape_vec((tn, m.nt), flat).unwrap();
        if m.pad_tgt {
            t = t.slice_move(s![PAD_LEAD..PAD_LEAD + n, ..]);
        }
        if m.counted {
            Live::C2(finish!(DatasetBase::new(records, CountedTargets::new(t))))
        } else {
            Live::P2(finish!(DatasetBase::new(records, t)))
        }
    } else {
        let mut t = Array1::from(flat);
        if m.pad_tgt {
            t = t.slice_move(s![PAD_LEAD..PAD_LEAD + n]);
        }
        if m.counted {
            Live::C1(finish!(DatasetBase::new(records, CountedTargets::new(t))))
        } else {
            Live::P1(finish!(DatasetBase::new(records, t)))
        }
    }
}

// ------------------------------------------------------------------------------------------------
// uniform observation of any dataset value through the public accessors

#[derive(Clone, Debug, PartialEq)]
pub struct Obs {
    pub n: usize,
    pub nf: usize,
    pub rec: Vec<Vec<f64>>,
    pub colmajor: bool,
    /// number of rows of the target array (must equal n)
    pub tn: usize,
    pub nt: usize,
    pub t2: bool,
    pub tgt: Vec<Vec<usize>>,
    /// raw weight vector (public field), whatever its length
    pub w: Vec<f32>,
    /// length reported by the `weights()` accessor
    pub w_accessor: Option<usize>,
    pub fnames: Vec<String>,
    pub tnames: Vec<String>,
    /// `label_count()` as reported by the value
    pub counts: Vec<BTreeMap<usize, usize>>,
    pub counted: bool,
}

pub trait LabelCode: Label {
    fn code(&self) -> usize;
}
impl LabelCode for usize {
    fn code(&self) -> usize {
        *self
    }
}
impl LabelCode for bool {
    fn code(&self) -> usize {
        *self as usize
    }
}

pub trait TKind {
    const COUNTED: bool;
}
impl<S: RawData, I> TKind for ArrayBase<S, I> {
    const COUNTED: bool = false;
}
impl<L: Label, P> TKind for CountedTargets<L, P> {
    const COUNTED: bool = true;
}

pub fn observe<L, D, T>(ds: &DatasetBase<ArrayBase<D, Ix2>, T>) -> Obs
where
    L: LabelCode,
    D: Data<Elem = f64>,
    T: AsTargets<Elem = L> + Labels<Elem = L> + TKind,
{
    let r = ds.records();
    let (n, nf) = r.dim();
    let rec: Vec<Vec<f64>> = (0..n).map(|i| (0..nf).map(|j| r[(i, j)]).collect()).collect();
    let colmajor = !r.is_standard_layout();
    let t = ds.as_targets().into_dyn();
    let (t2, tn, nt, tgt): (bool, usize, usize, Vec<Vec<usize>>) = match t.ndim() {
        1 => (false, t.len(), 1, t.iter().map(|x| vec![x.code()]).collect()),
        2 => {
            let (a, b) = (t.shape()[0], t.shape()[1]);
            (true, a, b, (0..a).map(|i| (0..b).map(|j| t[[i, j]].code()).collect()).collect())
        }
        _ => unreachable!(),
    };
    Obs {
        n,
        nf,
        rec,
        colmajor,
        tn,
        nt,
        t2,
        tgt,
        w: ds.weights.iter().cloned().collect(),
        w_accessor: ds.weights().map(|s| s.len()),
        fnames: ds.feature_names().to_vec(),
        tnames: ds.target_names().to_vec(),
        counts: ds.label_count().into_iter().map(|m| m.into_iter().map(|(k, v)| (k.code(), v)).collect()).collect(),
        counted: T::COUNTED,
    }
}

impl Obs {
    /// The model state of an observed (and verified) dataset value.
    pub fn to_model(&self) -> Model {
        Model {
            nf: self.nf,
            nt: self.nt,
            t2: self.t2,
            counted: self.counted,
            colmajor: self.colmajor,
            pad_rec: false,
            pad_tgt: false,
            pad_w: false,
            rec: self.rec.clone(),
            tgt: self.tgt.clone(),
            w: if !self.w.is_empty() && self.w.len() == self.n { Some(self.w.clone()) } else { None },
            fnames: self.fnames.clone(),
            tnames: self.tnames.clone(),
        }
    }
}

// ------------------------------------------------------------------------------------------------
// scripted random number generator

/// Answers the k-th bounded draw `gen_range(0..range_k)` of rand 0.8 with the scripted value:
/// rand maps a raw word v to `(v * range) >> bits` (widening multiply, u32 words for slice
/// shuffling, u64 words for `gen_range` over usize), so v = floor(k * 2^bits / range) + 1 lands in
/// bucket k and is never rejected. The oracle never relies on this mapping (it only checks the
/// contract of the operation); whether a script was honoured is measured and reported.
pub struct ScriptRng {
    pub draws: Vec<(usize, usize)>, // (wanted value, range)
    pub cursor: usize,
    pub overrun: bool,
}

impl ScriptRng {
    pub fn new(draws: Vec<(usize, usize)>) -> Self {
        ScriptRng { draws, cursor: 0, overrun: false }
    }
    fn next(&mut self) -> Option<(usize, usize)> {
        let d = self.draws.get(self.cursor).cloned();
        self.cursor += 1;
        if d.is_none() {
            self.overrun = true;
        }
        d
    }
    pub fn exact(&self) -> bool {
        !self.overrun && self.cursor == self.draws.len()
    }
}

impl rand::RngCore for ScriptRng {
    fn next_u32(&mut self) -> u32 {
        match self.next() {
            Some((k, range)) if range > 0 => ((((k as u64) << 32) / range as u64) + 1) as u32,
            _ => 0,
        }
    }
    fn next_u64(&mut self) -> u64 {
        match self.next() {
            Some((k, range)) if range > 0 => ((((k as u128) << 64) / range as u128) + 1) as u64,
            _ => 0,
        }
    }
    fn fill_bytes(&mut self, dest: &mut [u8]) {
        for b in dest.iter_mut() {
            *b = 0;
        }
        self.overrun = true;
    }
    fn try_fill_bytes(&mut self, dest: &mut [u8]) -> Result<(), rand::Error> {
        self.fill_bytes(dest);
        Ok(())
    }
}

/// Draw list of `shuffle` on n rows (Fisher-Yates from the back: ranges n, n-1, .., 2).
pub fn shuffle_draws(n: usize, script: &[usize]) -> Vec<(usize, usize)> {
    (0..n.saturating_sub(1)).map(|k| (script.get(k).cloned().unwrap_or(0), n - k)).collect()
}

/// The permutation rand's Fisher-Yates produces for a script (used only to measure whether the
/// script was honoured): position -> source row.
pub fn shuffle_perm(n: usize, script: &[usize]) -> Vec<usize> {
    let mut idx: Vec<usize> = (0..n).collect();
    for (k, i) in (1..n).rev().enumerate() {
        idx.swap(i, script.get(k).cloned().unwrap_or(0));
    }
    idx
}
