//! Implementation side of C02: applies one action to the REAL linfa dataset (owned value or
//! `.view()` of it) through the public API and observes everything it returns.

use crate::model::*;
use linfa::dataset::Records;
use linfa::DatasetBase;

#[derive(Default)]
pub struct ImplOut {
    /// every dataset the operation returned, in order
    pub outs: Vec<Obs>,
    /// one_vs_all: the label that came with each returned view
    pub ova_labels: Vec<usize>,
    /// sample_iter: the yielded (record row, target row) pairs
    pub pairs: Vec<(Vec<f64>, Vec<usize>)>,
    /// the scripted generator was asked exactly the scripted number of draws
    pub rng_exact: Option<bool>,
}

/// Operations available on every dataset kind (receiver: a reference to an owned dataset or to a view).
macro_rules! ops_any {
    ($ds:expr, $act:expr, $o:expr) => {{
        let ds = $ds;
        match $act {
            Act::Shuffle { script, .. } => {
                let mut rng = ScriptRng::new(shuffle_draws(ds.nsamples(), script));
                let r = ds.shuffle(&mut rng);
                $o.outs.push(observe(&r));
                $o.rng_exact = Some(rng.exact());
            }
            Act::BootSamples { m, items, script, .. } => {
                let n = ds.nsamples();
                let mut rng = ScriptRng::new(script.iter().map(|&k| (k, n)).collect());
                {
                    let mut it = ds.bootstrap_samples(*m, &mut rng);
                    for _ in 0..*items {
                        let r = it.next().unwrap();
                        $o.outs.push(observe(&r));
                    }
                }
                $o.rng_exact = Some(rng.exact());
            }
            Act::BootFeatures { q, items, script, .. } => {
                let f = ds.nfeatures();
                let mut rng = ScriptRng::new(script.iter().map(|&k| (k, f)).collect());
                {
                    let mut it = ds.bootstrap_features(*q, &mut rng);
                    for _ in 0..*items {
                        let r = it.next().unwrap();
                        $o.outs.push(observe(&r));
                    }
                }
                $o.rng_exact = Some(rng.exact());
            }
            Act::Boot { m, q, script, .. } => {
                let (n, f) = (ds.nsamples(), ds.nfeatures());
                let mut rng = ScriptRng::new(script.iter().enumerate().map(|(i, &k)| (k, if i < *m { n } else { f })).collect());
                {
                    let mut it = ds.bootstrap((*m, *q), &mut rng);
                    let r = it.next().unwrap();
                    $o.outs.push(observe(&r));
                }
                $o.rng_exact = Some(rng.exact());
            }
            Act::WithLabels { labels, .. } => {
                let r = ds.with_labels(labels);
                $o.outs.push(observe(&r));
            }
            Act::MapTargets { .. } => {
                let r = ds.clone().map_targets(|x| *x + 1);
                $o.outs.push(observe(&r));
            }
            Act::ToOwned { .. } => {
                let r = DatasetBase::to_owned(ds);
                $o.outs.push(observe(&r));
            }
            Act::View => {
                let r = ds.view();
                $o.outs.push(observe(&r));
            }
            Act::SplitView { r } => {
                let v = ds.view();
                let (a, b) = v.split_with_ratio(RATIOS[*r]);
                $o.outs.push(observe(&a));
                $o.outs.push(observe(&b));
            }
            Act::Chunks { c, .. } => {
                for chunk in ds.sample_chunks(*c) {
                    $o.outs.push(observe(&chunk));
                }
            }
            Act::SampleIter { .. } => {
                for (x, y) in ds.sample_iter() {
                    $o.pairs.push((x.iter().cloned().collect(), y.iter().cloned().collect()));
                }
            }
            Act::FeatureIter { .. } => {
                for v in ds.feature_iter() {
                    $o.outs.push(observe(&v));
                }
            }
            Act::Fold { k, .. } => {
                for (train, val) in ds.fold(*k) {
                    $o.outs.push(observe(&train));
                    $o.outs.push(observe(&val));
                }
            }
            _ => return Err(format!("action {:?} is not applicable to this dataset kind", $act)),
        }
    }};
}

/// One-dimensional targets only.
macro_rules! ops_single {
    ($ds:expr, $o:expr) => {{
        let ds = $ds;
        match ds.one_vs_all() {
            Ok(list) => {
                // the order of the returned list follows a HashSet (different on every call); it is
                // not part of the property, so the results are put into label order here
                let mut order: Vec<usize> = (0..list.len()).collect();
                order.sort_by_key(|&i| list[i].0);
                for i in order {
                    $o.ova_labels.push(list[i].0);
                    $o.outs.push(observe(&list[i].1));
                }
            }
            Err(e) => return Err(format!("one_vs_all returned Err({})", e)),
        }
    }};
}

/// Two-dimensional targets only.
macro_rules! ops_multi {
    ($ds:expr, $o:expr) => {{
        let ds = $ds;
        for v in ds.target_iter() {
            $o.outs.push(observe(&v));
        }
    }};
}

macro_rules! dispatch {
    ($d:expr, $act:expr, $o:expr, $single:tt) => {{
        let d = $d;
        let view = $act.on_view() && !matches!($act, Act::View | Act::SplitView { .. });
        match $act {
            Act::OneVsAll { .. } => {
                dispatch!(@single $single, d, view, $o, $act)
            }
            Act::TargetIter { .. } => {
                dispatch!(@multi $single, d, view, $o, $act)
            }
            _ => {
                if view {
                    let v = d.view();
                    ops_any!(&v, $act, $o)
                } else {
                    ops_any!(&d, $act, $o)
                }
            }
        }
    }};
    (@single true, $d:ident, $view:ident, $o:expr, $act:expr) => {{
        if $view {
            let v = $d.view();
            ops_single!(&v, $o)
        } else {
            ops_single!(&$d, $o)
        }
    }};
    (@single false, $d:ident, $view:ident, $o:expr, $act:expr) => {{
        let _ = $view;
        return Err(format!("action {:?} needs one-dimensional targets", $act));
    }};
    (@multi false, $d:ident, $view:ident, $o:expr, $act:expr) => {{
        if $view {
            let v = $d.view();
            ops_multi!(&v, $o)
        } else {
            ops_multi!(&$d, $o)
        }
    }};
    (@multi true, $d:ident, $view:ident, $o:expr, $act:expr) => {{
        let _ = $view;
        return Err(format!("action {:?} needs two-dimensional targets", $act));
    }};
}

/// Runs the action on the real dataset. `Err` = the harness asked for something inapplicable
/// (machinery error); panics of linfa propagate to the caller's `guarded`.
pub fn run_impl(live: Live, act: &Act) -> Result<ImplOut, String> {
    let mut o = ImplOut::default();
    match (live, act) {
        (Live::P1(d), Act::SplitOwned { r }) => {
            let (a, b) = d.split_with_ratio(RATIOS[*r]);
            o.outs.push(observe(&a));
            o.outs.push(observe(&b));
        }
        (Live::P2(d), Act::SplitOwned { r }) => {
            let (a, b) = d.split_with_ratio(RATIOS[*r]);
            o.outs.push(observe(&a));
            o.outs.push(observe(&b));
        }
        (Live::P2(d), Act::IntoSingleTarget) => {
            let r = d.into_single_target();
            o.outs.push(observe(&r));
        }
        (_, Act::SplitOwned { .. }) | (_, Act::IntoSingleTarget) => {
            return Err(format!("action {:?} is only defined for plain owned datasets", act));
        }
        (Live::P1(d), act) => dispatch!(d, act, o, true),
        (Live::C1(d), act) => dispatch!(d, act, o, true),
        (Live::P2(d), act) => dispatch!(d, act, o, false),
        (Live::C2(d), act) => dispatch!(d, act, o, false),
    }
    Ok(o)
}
