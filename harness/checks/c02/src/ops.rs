//! Implementation side of C02: builds the REAL linfa dataset of a model state (element type of the
//! targets and memory layout of every container as the state says), applies one action to the owned
//! value or to `.view()` of it through the public API and observes everything it returns.
//!
//! The code is stamped out per target element type by macros (duck-typed against linfa's inherent
//! methods): usize / bool / &'static str are `Label + Copy` (whole alphabet), i64 is `Copy` but no
//! `Label` (no with_labels / one_vs_all / CountedTargets), String is a `Label` but not `Copy` (only
//! the operations linfa defines without `E: Copy`).

use crate::model::*;
use linfa::dataset::{AsTargets, CountedTargets, Records};
use linfa::DatasetBase;
use ndarray::Array1;

#[derive(Default)]
pub struct ImplOut {
    /// every dataset the operation returned, in order
    pub outs: Vec<Obs>,
    /// one_vs_all: the label (code) that came with each returned view
    pub ova_labels: Vec<usize>,
    /// sample_iter: the yielded (record row, target row) pairs
    pub pairs: Vec<(Vec<f64>, Vec<usize>)>,
    /// the scripted generator was asked exactly the scripted number of draws
    pub rng_exact: Option<bool>,
}

/// Trusted base: the plain constructors.
fn finish<R: Records, T: AsTargets>(ds: DatasetBase<R, T>, w: Array1<f32>, m: &Model) -> DatasetBase<R, T> {
    ds.with_weights(w).with_feature_names(m.fnames.clone()).with_target_names(m.tnames.clone())
}

fn weights_of(m: &Model) -> Array1<f32> {
    match &m.w {
        Some(w) => lay1(w, m.lw, POISON_WEIGHT),
        None => Array1::zeros(0),
    }
}

macro_rules! with_labels_arm {
    (labels, $ds:expr, $labels:expr, $o:expr, $L:ty, $act:expr) => {{
        let ls: Vec<$L> = $labels.iter().map(|&c| <$L as Lab>::enc(c)).collect();
        let r = $ds.with_labels(&ls);
        $o.outs.push(observe(&r));
    }};
    (nolabels, $ds:expr, $labels:expr, $o:expr, $L:ty, $act:expr) => {{
        let _ = $labels;
        return Err(format!("action {:?} needs a label type", $act));
    }};
}

/// Operations available on every dataset kind with `Copy` target elements (receiver: a reference
/// to an owned dataset or to a view).
macro_rules! ops_any {
    ($ds:expr, $act:expr, $o:expr, $L:ty, $obs:ident, $wl:tt) => {{
        let ds = $ds;
        match $act {
            Act::Shuffle { .. } => {
                let mut rng = script_rng($act, ds.nsamples(), ds.nfeatures());
                let r = ds.shuffle(&mut rng);
                $o.outs.push($obs(&r));
                $o.rng_exact = Some(rng.exact());
            }
            Act::BootSamples { m, items, .. } => {
                let mut rng = script_rng($act, ds.nsamples(), ds.nfeatures());
                {
                    let mut it = ds.bootstrap_samples(*m, &mut rng);
                    for _ in 0..*items {
                        let r = it.next().unwrap();
                        $o.outs.push($obs(&r));
                    }
                }
                $o.rng_exact = Some(rng.exact());
            }
            Act::BootFeatures { q, items, .. } => {
                let mut rng = script_rng($act, ds.nsamples(), ds.nfeatures());
                {
                    let mut it = ds.bootstrap_features(*q, &mut rng);
                    for _ in 0..*items {
                        let r = it.next().unwrap();
                        $o.outs.push($obs(&r));
                    }
                }
                $o.rng_exact = Some(rng.exact());
            }
            Act::Boot { m, q, .. } => {
                let mut rng = script_rng($act, ds.nsamples(), ds.nfeatures());
                {
                    let mut it = ds.bootstrap((*m, *q), &mut rng);
                    let r = it.next().unwrap();
                    $o.outs.push($obs(&r));
                }
                $o.rng_exact = Some(rng.exact());
            }
            Act::DrawCoverage { features, .. } => {
                let range = if *features { ds.nfeatures() } else { ds.nsamples() };
                for d in 0..range {
                    let mut rng = ScriptRng::new(vec![(d, range); 2], false);
                    let r = if *features { ds.bootstrap_features(2, &mut rng).next().unwrap() } else { ds.bootstrap_samples(2, &mut rng).next().unwrap() };
                    $o.outs.push($obs(&r));
                }
            }
            Act::WithLabels { labels, .. } => with_labels_arm!($wl, ds, labels, $o, $L, $act),
            Act::MapTargets { .. } => {
                let r = ds.clone().map_targets(|x| <$L as Lab>::bump(x));
                $o.outs.push($obs(&r));
            }
            Act::ToOwned { .. } => {
                let r = DatasetBase::to_owned(ds);
                $o.outs.push($obs(&r));
            }
            Act::View => {
                let r = ds.view();
                $o.outs.push($obs(&r));
            }
            Act::SplitView { r } => {
                let v = ds.view();
                let (a, b) = v.split_with_ratio(RATIOS[*r]);
                $o.outs.push($obs(&a));
                $o.outs.push($obs(&b));
            }
            Act::Chunks { c, .. } => {
                for chunk in ds.sample_chunks(*c) {
                    $o.outs.push($obs(&chunk));
                }
            }
            Act::SampleIter { .. } => {
                for (x, y) in ds.sample_iter() {
                    $o.pairs.push((x.iter().cloned().collect(), y.iter().map(|l| l.code()).collect()));
                }
            }
            Act::FeatureIter { .. } => {
                for v in ds.feature_iter() {
                    $o.outs.push($obs(&v));
                }
            }
            Act::Fold { k, .. } => {
                for (train, val) in ds.fold(*k) {
                    $o.outs.push($obs(&train));
                    $o.outs.push($obs(&val));
                }
            }
            _ => return Err(format!("action {:?} is not applicable to this dataset kind", $act)),
        }
    }};
}

macro_rules! one_vs_all_on {
    ($ds:expr, $o:expr) => {{
        let ds = $ds;
        match ds.one_vs_all() {
            Ok(list) => {
                // the order of the returned list follows a HashSet (different on every call); it is
                // not part of the property, so the results are put into label order here
                let mut order: Vec<usize> = (0..list.len()).collect();
                order.sort_by_key(|&i| list[i].0.code());
                for i in order {
                    $o.ova_labels.push(list[i].0.code());
                    $o.outs.push(observe(&list[i].1));
                }
            }
            Err(e) => return Err(format!("one_vs_all returned Err({})", e)),
        }
    }};
}

macro_rules! ova_arm {
    (one, labels, $d:ident, $view:expr, $o:expr, $act:expr) => {{
        if $view {
            let v = $d.view();
            one_vs_all_on!(&v, $o)
        } else {
            one_vs_all_on!(&$d, $o)
        }
    }};
    ($dim:tt, $wl:tt, $d:ident, $view:expr, $o:expr, $act:expr) => {{
        let _ = ($view, &$d);
        return Err(format!("action {:?} needs one-dimensional label targets", $act));
    }};
}

macro_rules! titer_arm {
    (two, $d:ident, $view:expr, $o:expr, $obs:ident, $act:expr) => {{
        if $view {
            let v = $d.view();
            for x in v.target_iter() {
                $o.outs.push($obs(&x));
            }
        } else {
            for x in $d.target_iter() {
                $o.outs.push($obs(&x));
            }
        }
    }};
    (one, $d:ident, $view:expr, $o:expr, $obs:ident, $act:expr) => {{
        let _ = ($view, &$d);
        return Err(format!("action {:?} needs two-dimensional targets", $act));
    }};
}

macro_rules! split_owned_arm {
    (plain, $d:ident, $r:expr, $o:expr, $obs:ident, $act:expr) => {{
        let (a, b) = $d.split_with_ratio(RATIOS[*$r]);
        $o.outs.push($obs(&a));
        $o.outs.push($obs(&b));
    }};
    (counted, $d:ident, $r:expr, $o:expr, $obs:ident, $act:expr) => {{
        let _ = ($r, &$d);
        return Err(format!("action {:?} is only defined for plain owned datasets", $act));
    }};
}

macro_rules! single_target_arm {
    (plain, two, $d:ident, $o:expr, $obs:ident, $act:expr) => {{
        let r = $d.into_single_target();
        $o.outs.push($obs(&r));
    }};
    ($plain:tt, $dim:tt, $d:ident, $o:expr, $obs:ident, $act:expr) => {{
        let _ = &$d;
        return Err(format!("action {:?} is only defined for plain owned datasets with 2-d targets", $act));
    }};
}

macro_rules! run_kind {
    ($d:expr, $act:expr, $o:expr, $L:ty, $obs:ident, $wl:tt, $dim:tt, $plain:tt) => {{
        let d = $d;
        match $act {
            Act::SplitOwned { r } => split_owned_arm!($plain, d, r, $o, $obs, $act),
            Act::IntoSingleTarget => single_target_arm!($plain, $dim, d, $o, $obs, $act),
            Act::OneVsAll { view } => ova_arm!($dim, $wl, d, *view, $o, $act),
            Act::TargetIter { view } => titer_arm!($dim, d, *view, $o, $obs, $act),
            _ => {
                let view = $act.on_view() && !matches!($act, Act::View | Act::SplitView { .. });
                if view {
                    let v = d.view();
                    ops_any!(&v, $act, $o, $L, $obs, $wl)
                } else {
                    ops_any!(&d, $act, $o, $L, $obs, $wl)
                }
            }
        }
    }};
}

macro_rules! counted_kinds {
    (labels, $m:expr, $act:expr, $o:expr, $L:ty, $records:expr, $rows:expr, $w:expr) => {{
        if $m.t2 {
            let t = lay2(&$rows, $m.nt, $m.lt, &|_| <$L as Lab>::enc(POISON_LABEL));
            let d = finish(DatasetBase::new($records, CountedTargets::new(t)), $w, $m);
            run_kind!(d, $act, $o, $L, observe, labels, two, counted)
        } else {
            let flat: Vec<$L> = $rows.iter().map(|r| r[0].clone()).collect();
            let t = lay1(&flat, $m.lt, <$L as Lab>::enc(POISON_LABEL));
            let d = finish(DatasetBase::new($records, CountedTargets::new(t)), $w, $m);
            run_kind!(d, $act, $o, $L, observe, labels, one, counted)
        }
    }};
    (nolabels, $m:expr, $act:expr, $o:expr, $L:ty, $records:expr, $rows:expr, $w:expr) => {{
        let _ = ($records, $w);
        return Err("CountedTargets needs a label type".to_string());
    }};
}

/// Whole alphabet for one `Copy` element type.
macro_rules! typed_copy {
    ($modname:ident, $L:ty, $obs:ident, $wl:tt) => {
        pub mod $modname {
            use super::*;
            pub fn run(m: &Model, act: &Act) -> Result<ImplOut, String> {
                let mut o = ImplOut::default();
                let records = lay2(&m.rec, m.nf, m.lr, &poison_tag);
                let w = weights_of(m);
                let rows: Vec<Vec<$L>> = m.tgt.iter().map(|r| r.iter().map(|&c| <$L as Lab>::enc(c)).collect()).collect();
                if m.counted {
                    counted_kinds!($wl, m, act, o, $L, records, rows, w)
                } else if m.t2 {
                    let t = lay2(&rows, m.nt, m.lt, &|_| <$L as Lab>::enc(POISON_LABEL));
                    let d = finish(DatasetBase::new(records, t), w, m);
                    run_kind!(d, act, o, $L, $obs, $wl, two, plain)
                } else {
                    let flat: Vec<$L> = rows.iter().map(|r| r[0].clone()).collect();
                    let t = lay1(&flat, m.lt, <$L as Lab>::enc(POISON_LABEL));
                    let d = finish(DatasetBase::new(records, t), w, m);
                    run_kind!(d, act, o, $L, $obs, $wl, one, plain)
                }
                Ok(o)
            }
        }
    };
}

typed_copy!(t_usize, usize, observe, labels);
typed_copy!(t_bool, bool, observe, labels);
typed_copy!(t_str, &'static str, observe, labels);
typed_copy!(t_i64, i64, observe_plain, nolabels);

/// String targets (a `Label`, not `Copy`): the operations linfa defines without `E: Copy`.
pub mod t_string {
    use super::*;

    macro_rules! ref_ops {
        ($ds:expr, $act:expr, $o:expr) => {{
            let ds = $ds;
            match $act {
                Act::View => {
                    let r = ds.view();
                    $o.outs.push(observe(&r));
                }
                Act::SplitView { r } => {
                    let v = ds.view();
                    let (a, b) = v.split_with_ratio(RATIOS[*r]);
                    $o.outs.push(observe(&a));
                    $o.outs.push(observe(&b));
                }
                Act::MapTargets { .. } => {
                    let r = ds.clone().map_targets(|x| x.bump());
                    $o.outs.push(observe(&r));
                }
                Act::SampleIter { .. } => {
                    for (x, y) in ds.sample_iter() {
                        $o.pairs.push((x.iter().cloned().collect(), y.iter().map(|l| l.code()).collect()));
                    }
                }
                Act::FeatureIter { .. } => {
                    for v in ds.feature_iter() {
                        $o.outs.push(observe(&v));
                    }
                }
                _ => return Err(format!("action {:?} is not defined for String targets", $act)),
            }
        }};
    }

    pub fn run(m: &Model, act: &Act) -> Result<ImplOut, String> {
        let mut o = ImplOut::default();
        if m.counted {
            return Err("counted String targets are not part of the alphabet".to_string());
        }
        let records = lay2(&m.rec, m.nf, m.lr, &poison_tag);
        let w = weights_of(m);
        let rows: Vec<Vec<String>> = m.tgt.iter().map(|r| r.iter().map(|&c| String::enc(c)).collect()).collect();
        let view = act.on_view() && !matches!(act, Act::View | Act::SplitView { .. });
        if m.t2 {
            let t = lay2(&rows, m.nt, m.lt, &|_| String::enc(POISON_LABEL));
            let d = finish(DatasetBase::new(records, t), w, m);
            match act {
                Act::SplitOwned { r } => {
                    let (a, b) = d.split_with_ratio(RATIOS[*r]);
                    o.outs.push(observe(&a));
                    o.outs.push(observe(&b));
                }
                Act::IntoSingleTarget => {
                    let r = d.into_single_target();
                    o.outs.push(observe(&r));
                }
                Act::TargetIter { .. } => {
                    if view {
                        let v = d.view();
                        for x in v.target_iter() {
                            o.outs.push(observe(&x));
                        }
                    } else {
                        for x in d.target_iter() {
                            o.outs.push(observe(&x));
                        }
                    }
                }
                _ => {
                    if view {
                        let v = d.view();
                        ref_ops!(&v, act, o)
                    } else {
                        ref_ops!(&d, act, o)
                    }
                }
            }
        } else {
            let flat: Vec<String> = rows.iter().map(|r| r[0].clone()).collect();
            let t = lay1(&flat, m.lt, String::enc(POISON_LABEL));
            let d = finish(DatasetBase::new(records, t), w, m);
            match act {
                Act::SplitOwned { r } => {
                    let (a, b) = d.split_with_ratio(RATIOS[*r]);
                    o.outs.push(observe(&a));
                    o.outs.push(observe(&b));
                }
                Act::OneVsAll { .. } => {
                    if view {
                        let v = d.view();
                        one_vs_all_on!(&v, o)
                    } else {
                        one_vs_all_on!(&d, o)
                    }
                }
                _ => {
                    if view {
                        let v = d.view();
                        ref_ops!(&v, act, o)
                    } else {
                        ref_ops!(&d, act, o)
                    }
                }
            }
        }
        Ok(o)
    }
}

/// Builds the real dataset of `m` and runs the action on it. `Err` = the harness asked for something
/// inapplicable (machinery error); panics of linfa propagate to the caller's `guarded`.
pub fn run_impl(m: &Model, act: &Act) -> Result<ImplOut, String> {
    match m.ltype.as_str() {
        "usize" => t_usize::run(m, act),
        "bool" => t_bool::run(m, act),
        "str" => t_str::run(m, act),
        "i64" => t_i64::run(m, act),
        "string" => t_string::run(m, act),
        other => Err(format!("unknown target element type {}", other)),
    }
}

/// Which actions exist for a target element type.
pub fn applicable(ltype: &str, act: &Act) -> bool {
    match ltype {
        "usize" | "str" => true,
        // map_targets(+1) has no meaning on a two-valued type (covered by the other types)
        // and the label alphabet of a bool dataset is {0, 1}
        "bool" => match act {
            Act::MapTargets { .. } => false,
            Act::WithLabels { labels, .. } => labels.iter().all(|&l| l < 2),
            _ => true,
        },
        "i64" => !matches!(act, Act::WithLabels { .. } | Act::OneVsAll { .. }),
        "string" if matches!(act, Act::DrawCoverage { .. }) => false,
        "string" => matches!(
            act,
            Act::SplitOwned { .. } | Act::SplitView { .. } | Act::View | Act::OneVsAll { .. } | Act::MapTargets { .. } | Act::SampleIter { .. } | Act::TargetIter { .. } | Act::FeatureIter { .. } | Act::IntoSingleTarget
        ),
        _ => false,
    }
}
