//! Builder-history sub-sweep of C08: the parameter sets of DBSCAN and OPTICS reached through every
//! constructor and every short sequence of setter calls (with decoy writes) must (a) publish, through
//! the getters of the checked params, the FINAL logical parameter set ("last write wins", computed
//! by a three-field reference model) and (b) cluster exactly like the canonical form
//! `params_with(min_points, dist_fn, nn_algo).tolerance(t)` of that final set (bit-identical).

use linfa::traits::Transformer;
use linfa::{Float, ParamGuard};
use linfa_clustering::{Dbscan, Optics};
use linfa_nn::distance::{Distance, L2Dist, LpDist};
use linfa_nn::CommonNearestNeighbour as Cnn;
use lvmc_core::{guarded, json, Value, Violation};
use ndarray::Array2;
use serde::{Deserialize, Serialize};

#[derive(Clone, Debug, Serialize, Deserialize)]
pub struct BuilderCase {
    pub builder: bool, // discriminator for --replay
    pub points: Vec<Vec<f64>>,
    pub dim: usize,
    pub float: String,
    pub min_points: usize,
    pub tol_real: f64,
    pub tol_decoy: f64,
    pub kind_real: usize, // index into KINDS
    pub kind_decoy: usize,
    /// when present only this variant is run (replay)
    #[serde(default)]
    pub variant: Option<Variant>,
}

#[derive(Clone, Debug, Serialize, Deserialize, PartialEq)]
pub struct Variant {
    pub algo: String,  // "dbscan" | "optics"
    pub dist: String,  // "L2Dist" | "LpDist"
    pub ctor: String,  // "params" | "params_with_decoys" | "params_with_real"
    pub ops: Vec<String>, // "tol" "nn" "dist" "tol_decoy" "nn_decoy" "dist_decoy"
}

const KINDS: [(&str, Cnn); 3] = [("linear", Cnn::LinearSearch), ("kdtree", Cnn::KdTree), ("balltree", Cnn::BallTree)];
const OPS: [&str; 6] = ["tol", "nn", "dist", "tol_decoy", "nn_decoy", "dist_decoy"];
const CTORS: [&str; 3] = ["params", "params_with_decoys", "params_with_real"];

/// All setter sequences that are explored: every sequence of length <= 3 over the six writes, plus
/// every order of the three real writes after a full prefix of decoy writes.
pub fn sequences() -> Vec<Vec<&'static str>> {
    let mut out: Vec<Vec<&'static str>> = vec![vec![]];
    let mut frontier: Vec<Vec<&'static str>> = vec![vec![]];
    for _ in 0..3 {
        let mut next = Vec::new();
        for s in &frontier {
            for o in OPS {
                let mut t = s.clone();
                t.push(o);
                next.push(t);
            }
        }
        out.extend(next.iter().cloned());
        frontier = next;
    }
    for perm in [[0, 1, 2], [0, 2, 1], [1, 0, 2], [1, 2, 0], [2, 0, 1], [2, 1, 0]] {
        let mut t = vec!["tol_decoy", "nn_decoy", "dist_decoy"];
        t.extend(perm.iter().map(|&i| OPS[i]));
        out.push(t);
    }
    out
}

#[derive(Clone, Debug, PartialEq)]
enum Out {
    Labels(Vec<Option<usize>>),
    Analysis(Vec<(usize, Option<u64>, Option<u64>)>),
}

/// What the checked params publish: tolerance bits (as f64), min_points, index kind, distance (Debug form).
type Published = (u64, usize, Cnn, String);

macro_rules! variant_fn {
    ($name:ident, $algo:ident, $run:expr) => {
        #[allow(clippy::too_many_arguments)]
        fn $name<F: Float, D: Distance<F> + std::fmt::Debug>(
            x: &Array2<F>,
            mp: usize,
            ctor: &str,
            default_ctor: Option<&dyn Fn() -> Result<(Published, Out), String>>,
            ops: &[String],
            t: (F, F),
            k: (&Cnn, &Cnn),
            d: (&D, &D),
        ) -> Result<(Published, Out), String> {
            let _ = default_ctor;
            let mut p = match ctor {
                "params_with_decoys" => $algo::params_with::<F, D, Cnn>(mp, d.1.clone(), k.1.clone()),
                _ => $algo::params_with::<F, D, Cnn>(mp, d.0.clone(), k.0.clone()),
            };
            for op in ops {
                p = match op.as_str() {
                    "tol" => p.tolerance(t.0),
                    "tol_decoy" => p.tolerance(t.1),
                    "nn" => p.nn_algo(k.0.clone()),
                    "nn_decoy" => p.nn_algo(k.1.clone()),
                    "dist" => p.dist_fn(d.0.clone()),
                    "dist_decoy" => p.dist_fn(d.1.clone()),
                    other => panic!("unknown op {}", other),
                };
            }
            let v = p.check().map_err(|e| e.to_string())?;
            let published: Published = (v.tolerance().to_f64().unwrap().to_bits(), v.minimum_points(), v.nn_algo().clone(), format!("{:?}", v.dist_fn()));
            #[allow(clippy::redundant_closure_call)]
            let out = $run(&v, x);
            Ok((published, out))
        }
    };
}

fn bits<F: Float>(x: &Option<F>) -> Option<u64> {
    x.map(|v| v.to_f64().unwrap().to_bits())
}

variant_fn!(dbscan_variant, Dbscan, |v: &linfa_clustering::DbscanValidParams<F, D, Cnn>, x: &Array2<F>| Out::Labels(v.transform(x).to_vec()));
variant_fn!(optics_variant, Optics, |v: &linfa_clustering::OpticsValidParams<F, D, Cnn>, x: &Array2<F>| Out::Analysis(
    v.transform(x.view()).iter().map(|s| (s.index(), bits(s.core_distance()), bits(s.reachability_distance()))).collect()
));

/// The `params(min_points)` constructors exist for the Euclidean default only.
fn default_ctor_variant<F: Float>(algo: &str, x: &Array2<F>, mp: usize, ops: &[String], t: (F, F), k: (&Cnn, &Cnn)) -> Result<(Published, Out), String> {
    macro_rules! go {
        ($algo:ident, $run:expr) => {{
            let mut p = $algo::params::<F>(mp);
            for op in ops {
                p = match op.as_str() {
                    "tol" => p.tolerance(t.0),
                    "tol_decoy" => p.tolerance(t.1),
                    "nn" => p.nn_algo(k.0.clone()),
                    "nn_decoy" => p.nn_algo(k.1.clone()),
                    "dist" | "dist_decoy" => p.dist_fn(L2Dist),
                    other => panic!("unknown op {}", other),
                };
            }
            let v = p.check().map_err(|e| e.to_string())?;
            let published: Published = (v.tolerance().to_f64().unwrap().to_bits(), v.minimum_points(), v.nn_algo().clone(), format!("{:?}", v.dist_fn()));
            Ok((published, $run(&v)))
        }};
    }
    if algo == "dbscan" {
        go!(Dbscan, |v: &linfa_clustering::DbscanValidParams<F, L2Dist, Cnn>| Out::Labels(v.transform(x).to_vec()))
    } else {
        go!(Optics, |v: &linfa_clustering::OpticsValidParams<F, L2Dist, Cnn>| Out::Analysis(
            v.transform(x.view()).iter().map(|s| (s.index(), bits(s.core_distance()), bits(s.reachability_distance()))).collect()
        ))
    }
}

#[derive(Default)]
pub struct BuilderCounters {
    pub evals: u64,
    pub nontrivial: u64,
    pub final_states_seen: u64,
}

pub fn run_case(case: &BuilderCase, viols: &mut Vec<Violation>) -> BuilderCounters {
    if case.float == "f32" {
        run_typed::<f32>(case, viols)
    } else {
        run_typed::<f64>(case, viols)
    }
}

fn run_typed<F: Float>(case: &BuilderCase, viols: &mut Vec<Violation>) -> BuilderCounters {
    let mut cnt = BuilderCounters::default();
    let n = case.points.len();
    let x: Array2<F> = Array2::from_shape_fn((n, case.dim), |(i, j)| F::from(case.points[i][j]).unwrap());
    let t = (F::from(case.tol_real).unwrap(), F::from(case.tol_decoy).unwrap());
    let k = (&KINDS[case.kind_real].1, &KINDS[case.kind_decoy].1);
    let seqs = sequences();
    for algo in ["dbscan", "optics"] {
        let default_tol: F = if algo == "dbscan" { F::cast(1e-4) } else { F::infinity() };
        for dist in ["L2Dist", "LpDist"] {
            // canonical results per final logical state (tolerance in {default, real, decoy} x kind x distance)
            let mut canon: Vec<((u64, usize, usize), Result<(Published, Out), String>)> = Vec::new();
            for ctor in CTORS {
                if ctor == "params" && dist != "L2Dist" {
                    continue;
                }
                for ops in &seqs {
                    let ops_s: Vec<String> = ops.iter().map(|s| s.to_string()).collect();
                    let variant = Variant { algo: algo.into(), dist: dist.into(), ctor: ctor.into(), ops: ops_s.clone() };
                    if let Some(only) = &case.variant {
                        if *only != variant {
                            continue;
                        }
                    }
                    // ---- reference model: three fields, last write wins ----
                    let (mut m_tol, mut m_kind, mut m_dist): (F, usize, usize) = match ctor {
                        "params" => (default_tol, 1, 0), // KdTree, Euclidean
                        "params_with_decoys" => (default_tol, case.kind_decoy, 1),
                        _ => (default_tol, case.kind_real, 0),
                    };
                    for op in ops {
                        match *op {
                            "tol" => m_tol = t.0,
                            "tol_decoy" => m_tol = t.1,
                            "nn" => m_kind = case.kind_real,
                            "nn_decoy" => m_kind = case.kind_decoy,
                            "dist" => m_dist = 0,
                            "dist_decoy" => m_dist = if ctor == "params" { 0 } else { 1 },
                            _ => unreachable!(),
                        }
                    }
                    if dist == "L2Dist" {
                        m_dist = 0; // unit type: real and decoy are the same value
                    }
                    let m_tol_bits = m_tol.to_f64().unwrap().to_bits();
                    cnt.evals += 1;
                    // ---- subject: the variant, and the canonical form of the model's final state ----
                    let l2 = (&L2Dist, &L2Dist);
                    let lp_pair = (LpDist(F::cast(1.0)), LpDist(F::cast(3.0)));
                    let lp = (&lp_pair.0, &lp_pair.1);
                    let got = guarded(|| {
                        if ctor == "params" {
                            default_ctor_variant::<F>(algo, &x, case.min_points, &ops_s, t, k)
                        } else if dist == "L2Dist" {
                            if algo == "dbscan" {
                                dbscan_variant::<F, L2Dist>(&x, case.min_points, ctor, None, &ops_s, t, k, l2)
                            } else {
                                optics_variant::<F, L2Dist>(&x, case.min_points, ctor, None, &ops_s, t, k, l2)
                            }
                        } else if algo == "dbscan" {
                            dbscan_variant::<F, LpDist<F>>(&x, case.min_points, ctor, None, &ops_s, t, k, lp)
                        } else {
                            optics_variant::<F, LpDist<F>>(&x, case.min_points, ctor, None, &ops_s, t, k, lp)
                        }
                    });
                    let key = (m_tol_bits, m_kind, m_dist);
                    if !canon.iter().any(|c| c.0 == key) {
                        cnt.final_states_seen += 1;
                        let kk = (&KINDS[m_kind].1, &KINDS[m_kind].1);
                        let tt = (m_tol, m_tol);
                        let one = vec!["tol".to_string()];
                        let c = guarded(|| {
                            if dist == "L2Dist" {
                                if algo == "dbscan" {
                                    dbscan_variant::<F, L2Dist>(&x, case.min_points, "params_with_real", None, &one, tt, kk, l2)
                                } else {
                                    optics_variant::<F, L2Dist>(&x, case.min_points, "params_with_real", None, &one, tt, kk, l2)
                                }
                            } else {
                                let dsel = if m_dist == 0 { (lp.0, lp.0) } else { (lp.1, lp.1) };
                                if algo == "dbscan" {
                                    dbscan_variant::<F, LpDist<F>>(&x, case.min_points, "params_with_real", None, &one, tt, kk, dsel)
                                } else {
                                    optics_variant::<F, LpDist<F>>(&x, case.min_points, "params_with_real", None, &one, tt, kk, dsel)
                                }
                            }
                        });
                        canon.push((key, c.unwrap_or_else(|p| Err(format!("panic: {}", p)))));
                    }
                    let reference = &canon.iter().find(|c| c.0 == key).unwrap().1;
                    let sig_kind = if ops.is_empty() { "constructor_dependence" } else { "builder_order_dependence" };
                    let expected_dist = if dist == "L2Dist" { "L2Dist".to_string() } else { format!("{:?}", if m_dist == 0 { lp.0 } else { lp.1 }) };
                    let expected: Published = (m_tol_bits, case.min_points, KINDS[m_kind].1.clone(), expected_dist);
                    let mut problem: Option<String> = None;
                    match (&got, reference) {
                        (Err(p), _) => problem = Some(format!("building / running the variant panicked: {}", p)),
                        (Ok(Err(e)), Ok(_)) => problem = Some(format!("the variant is rejected ({}) but the canonical form of the same final parameters is accepted", e)),
                        (Ok(Err(_)), Err(_)) => {} // both rejected (cannot happen with the enumerated values)
                        (Ok(Ok(_)), Err(e)) => problem = Some(format!("the variant is accepted but the canonical form of the same final parameters fails: {}", e)),
                        (Ok(Ok((published, out))), Ok((_, canon_out))) => {
                            if *published != expected {
                                problem = Some(format!(
                                    "the checked params publish (tolerance {}, min_points {}, nn_algo {:?}, dist_fn {}) but the final logical parameter set is (tolerance {}, min_points {}, nn_algo {:?}, dist_fn {})",
                                    f64::from_bits(published.0), published.1, published.2, published.3, f64::from_bits(expected.0), expected.1, expected.2, expected.3
                                ));
                            } else if out != canon_out {
                                problem = Some(format!("the result {:?} differs from the result {:?} of params_with(min_points, dist_fn, nn_algo).tolerance(t) with the same final parameters", out, canon_out));
                            }
                            let clustered = match canon_out {
                                Out::Labels(l) => l.iter().any(|x| x.is_some()),
                                Out::Analysis(a) => a.iter().any(|s| s.1.is_some()),
                            };
                            if !ops.is_empty() && clustered {
                                cnt.nontrivial += 1;
                            }
                        }
                    }
                    if let Some(what) = problem {
                        let mut cj = serde_json::to_value(case).unwrap();
                        cj.as_object_mut().unwrap().insert("variant".into(), serde_json::to_value(&variant).unwrap());
                        viols.push(Violation::new(
                            format!("{}.params.{}", algo, sig_kind),
                            format!("[{} {} {} n={} min_points={}] {}::{}{} : {}", algo, dist, case.float, n, case.min_points, algo, ctor, ops.iter().map(|o| format!(".{}", o)).collect::<String>(), what),
                            cj,
                        ));
                    }
                }
            }
        }
    }
    cnt
}

pub fn replay(v: &Value) -> Vec<Violation> {
    let c: BuilderCase = match serde_json::from_value(v.clone()) {
        Ok(c) => c,
        Err(e) => {
            println!("MACHINERY-ERROR builder replay case does not parse: {}", e);
            std::process::exit(2);
        }
    };
    let mut out = Vec::new();
    run_case(&c, &mut out);
    out
}

pub fn sample(c: &BuilderCase) -> Value {
    json!({"family": "builder_history", "points": c.points, "float": c.float, "min_points": c.min_points, "tolerance": c.tol_real, "decoy_tolerance": c.tol_decoy, "nn_algo": KINDS[c.kind_real].0, "decoy_nn_algo": KINDS[c.kind_decoy].0})
}
