//! C08 — DBSCAN and OPTICS output is the density clustering of the input.
//! Exhaustive sweep (DESIGN.md §4 C08): every point set of the enumerated families x min_points x
//! every class-A tolerance (strictly between two inter-point distances) and every class-B tolerance
//! (exactly an inter-point distance) x metrics L1/L2/Linf x the three neighbour indices, DBSCAN and
//! OPTICS (OPTICS also with its default infinite tolerance), against a reference recomputed from
//! the definitions on a plain f64 distance table.

mod builder;
mod reference;

use linfa::traits::Transformer;
use linfa::{Float, ParamGuard};
use linfa::DatasetBase;
use linfa_clustering::{Dbscan, Optics};
use linfa_nn::distance::{Distance, L1Dist, L2Dist, LInfDist, LpDist};
use linfa_nn::CommonNearestNeighbour;
use lvmc_core::enumerate as en;
use lvmc_core::refmath::{self, Metric};
use lvmc_core::{guarded, json, par_sweep, Ctx, Level, Value, Violation};
use ndarray::{s, Array2, ArrayBase, ArrayView2, Data, Ix2, ShapeBuilder};
use reference::{OSample, RefModel};
use serde::{Deserialize, Serialize};
use std::sync::atomic::{AtomicU64, Ordering};

#[derive(Clone, Debug, Serialize, Deserialize)]
struct Case {
    family: String,
    points: Vec<Vec<f64>>,
    dim: usize,
    float: String,  // "f32" | "f64"
    metric: String, // "L1" | "L2" | "Linf"
    /// coordinates are small integers: L1 / Linf distances and perfect-square L2 distances are exact
    integer_coords: bool,
    min_points: Vec<usize>,
    /// memory layout in which the SAME logical matrix is handed to the subject:
    /// "standard" | "col_major" (owned `.f()` array) | "transposed_view" (`.t()` of a feature-major
    /// array) | "reversed_rows_view" | "every_second_row_view" (filler rows hold poison values) |
    /// "reversed_features_view" (`s![.., ..;-1]` of a feature-reversed copy: every row has stride -1)
    #[serde(default = "standard_layout")]
    layout: String,
    /// 0 = every distinct inter-point distance yields tolerances; k > 0 = only the k smallest
    /// distinct distances do (large point sets)
    #[serde(default)]
    max_distinct: usize,
    /// also call the dataset form `transform(DatasetBase)` of DBSCAN and demand the same labels
    #[serde(default)]
    dataset_form: bool,
}

fn standard_layout() -> String {
    "standard".into()
}

/// The one run inside a case that a violation belongs to (used by --replay to narrow).
#[derive(Clone, Debug, Serialize, Deserialize)]
struct At {
    algo: String, // "dbscan" | "optics"
    kind: String, // "linear" | "kdtree" | "balltree" | "all"
    min_points: usize,
    /// None = OPTICS default (infinite) tolerance
    eps: Option<f64>,
    /// position in the case's tolerance list (the key used by --replay; `eps` is informative, a
    /// JSON text round trip may move a non-dyadic float by one ulp)
    eps_index: usize,
    eps_class: String,
}

impl At {
    fn same_run(&self, o: &At) -> bool {
        self.algo == o.algo && self.min_points == o.min_points && self.eps_index == o.eps_index && self.kind == o.kind
    }
}

const KINDS: [(&str, CommonNearestNeighbour); 3] = [
    ("linear", CommonNearestNeighbour::LinearSearch),
    ("kdtree", CommonNearestNeighbour::KdTree),
    ("balltree", CommonNearestNeighbour::BallTree),
];

fn metric_of(s: &str) -> Metric {
    match s {
        "L1" => Metric::L1,
        "L2" => Metric::L2,
        "Linf" => Metric::LInf,
        "Lp3" => Metric::Lp(3.0),
        _ => panic!("unknown metric"),
    }
}

#[derive(Default, Clone)]
struct Counters {
    evals: u64,
    nontrivial: u64,
    indeterminate: u64,
    dbscan_runs: u64,
    optics_runs: u64,
    class_b_runs_decided: u64,
    class_b_runs_with_point_exactly_on_tolerance: u64,
    border_points: u64,
    border_points_reachable_from_two_clusters: u64,
    noise_points: u64,
    runs_with_two_or_more_clusters: u64,
    optics_inf_tolerance_runs: u64,
    optics_undefined_core_seen: u64,
    optics_defined_reachability_seen: u64,
    zero_feature_runs: u64,
    index_triples_compared: u64,
    layout_runs: u64,
    layout_runs_compared_with_standard: u64,
    kdtree_documented_noncontiguous_panics: u64,
    dataset_form_runs: u64,
    large_n_runs: u64,
    f32_runs: u64,
}

type LabelRun = Result<Result<(Vec<Option<usize>>, bool), String>, String>;

/// DBSCAN on `x` exactly as given (owned or view, any strides), array form or
/// dataset form. Returns the labels and whether the dataset form handed the records back unchanged.
#[allow(clippy::too_many_arguments)]
fn label_run<F: Float, D: Distance<F>, S: Data<Elem = F>>(x: &ArrayBase<S, Ix2>, pass_owned: bool, dataset_form: bool, mp: usize, eps: F, dist_fn: &D, kind: &CommonNearestNeighbour) -> LabelRun {
    guarded(|| {
        macro_rules! go {
            ($params:expr) => {{
                match $params.check() {
                    Err(e) => Err(e.to_string()),
                    Ok(p) => {
                        if !dataset_form {
                            Ok((p.transform(x).to_vec(), true))
                        } else if pass_owned {
                            let out = p.transform(DatasetBase::from(x.to_owned()));
                            Ok((out.targets().to_vec(), out.records() == x && out.records().strides() == x.strides()))
                        } else {
                            let out = p.transform(DatasetBase::from(x.view()));
                            Ok((out.targets().to_vec(), out.records() == x))
                        }
                    }
                }
            }};
        }
        go!(Dbscan::params_with::<F, D, CommonNearestNeighbour>(mp, dist_fn.clone(), kind.clone()).tolerance(eps))
    })
}

fn clip(mut s: String) -> String {
    if s.len() > 1500 {
        let mut k = 1500;
        while !s.is_char_boundary(k) {
            k -= 1;
        }
        s.truncate(k);
        s.push_str("...");
    }
    s
}

/// A violation found inside a case; the (expensive) case JSON is attached by `to_violation`.
struct Found {
    sig: String,
    what: String,
    at: At,
}

fn to_violation(case: &Case, f: Found, with_case: bool) -> Violation {
    let cj = if with_case {
        let mut v = serde_json::to_value(case).unwrap();
        v.as_object_mut().unwrap().insert("at".into(), serde_json::to_value(&f.at).unwrap());
        v
    } else {
        Value::Null
    };
    Violation::new(f.sig, f.what, cj)
}

fn run_case(case: &Case, only: Option<&At>, viols: &mut Vec<Found>) -> Counters {
    match (case.float.as_str(), case.metric.as_str()) {
        ("f64", "L1") => run_typed::<f64, _>(case, L1Dist, only, viols),
        ("f64", "L2") => run_typed::<f64, _>(case, L2Dist, only, viols),
        ("f64", "Linf") => run_typed::<f64, _>(case, LInfDist, only, viols),
        ("f64", "Lp3") => run_typed::<f64, _>(case, LpDist(3.0f64), only, viols),
        ("f32", "Lp3") => run_typed::<f32, _>(case, LpDist(3.0f32), only, viols),
        ("f32", "L1") => run_typed::<f32, _>(case, L1Dist, only, viols),
        ("f32", "L2") => run_typed::<f32, _>(case, L2Dist, only, viols),
        ("f32", "Linf") => run_typed::<f32, _>(case, LInfDist, only, viols),
        _ => panic!("bad case"),
    }
}

fn to_f64<F: Float>(x: F) -> f64 {
    x.to_f64().unwrap()
}

/// Tolerances of a case: class A strictly between consecutive distinct inter-point distances (plus
/// one below the smallest positive and one above the largest), class B exactly each distance.
fn tolerances(dist: &[Vec<f64>], tol: f64, max_distinct: usize) -> Vec<(f64, &'static str)> {
    let n = dist.len();
    let mut ds: Vec<f64> = Vec::new();
    for i in 0..n {
        for j in i + 1..n {
            if dist[i][j] > 0.0 {
                ds.push(dist[i][j]);
            }
        }
    }
    ds.sort_by(|a, b| a.partial_cmp(b).unwrap());
    let scale = ds.last().cloned().unwrap_or(1.0).max(1.0);
    let mut distinct: Vec<f64> = Vec::new();
    for &x in &ds {
        if distinct.last().map_or(true, |&l| x - l > tol * scale) {
            distinct.push(x);
        }
    }
    if distinct.is_empty() {
        return vec![(1.0, "A_no_positive_distance")];
    }
    let mut out = vec![(distinct[0] / 2.0, "A_below_min")];
    if max_distinct > 0 && distinct.len() > max_distinct {
        // large point sets: the k smallest distinct distances only (the midpoint above the k-th included)
        for w in distinct[..max_distinct + 1].windows(2) {
            out.push(((w[0] + w[1]) / 2.0, "A_midpoint"));
        }
        for &x in &distinct[..max_distinct] {
            out.push((x, "B_exact"));
        }
        return out;
    }
    for w in distinct.windows(2) {
        out.push(((w[0] + w[1]) / 2.0, "A_midpoint"));
    }
    out.push((distinct[distinct.len() - 1] + 1.0, "A_above_max"));
    for &x in &distinct {
        out.push((x, "B_exact"));
    }
    out
}

fn run_typed<F: Float, D: Distance<F> + 'static>(case: &Case, dist_fn: D, only: Option<&At>, viols: &mut Vec<Found>) -> Counters {
    let mut cnt = Counters::default();
    let n = case.points.len();
    let d = case.dim;
    let metric = metric_of(&case.metric);
    let is32 = case.float == "f32";
    let tol = if is32 { 2e-5 } else { 1e-11 };
    let rel = if is32 { 1e-4 } else { 1e-9 };
    let batch: Array2<F> = Array2::from_shape_fn((n, d), |(i, j)| F::from(case.points[i][j]).unwrap());
    // coordinates as the subject sees them (after rounding to F), for the reference
    let pts: Vec<Vec<f64>> = (0..n).map(|i| (0..d).map(|j| to_f64(batch[(i, j)])).collect()).collect();
    let dist: Vec<Vec<f64>> = (0..n).map(|i| (0..n).map(|j| refmath::dist(metric, &pts[i], &pts[j])).collect()).collect();
    let scale = dist.iter().flatten().cloned().fold(1.0f64, f64::max);
    // the same logical matrix in the requested memory layout (`input`); `batch` stays the standard one
    let col_major: Array2<F> = Array2::from_shape_fn((n, d).f(), |(i, j)| batch[(i, j)]);
    let reversed: Array2<F> = Array2::from_shape_fn((n, d), |(i, j)| batch[(n - 1 - i, j)]);
    let feature_reversed: Array2<F> = Array2::from_shape_fn((n, d), |(i, j)| batch[(i, d - 1 - j)]);
    let doubled: Array2<F> = Array2::from_shape_fn((2 * n, d), |(i, j)| if i % 2 == 0 { batch[(i / 2, j)] } else { F::from(1000.0 + (i * 7 + j) as f64).unwrap() });
    let nonstandard = case.layout != "standard";
    let feature_major: Array2<F> = Array2::from_shape_fn((d, n), |(j, i)| batch[(i, j)]);
    let input: ArrayView2<F> = match case.layout.as_str() {
        "standard" => batch.view(),
        "col_major" => col_major.view(),
        "transposed_view" => feature_major.t(),
        "reversed_rows_view" => reversed.slice(s![..;-1, ..]),
        "every_second_row_view" => doubled.slice(s![..;2, ..]),
        "reversed_features_view" => feature_reversed.slice(s![.., ..;-1]),
        other => panic!("unknown layout {}", other),
    };
    assert!(input == batch, "layout construction must not change the logical matrix");
    // rows of the input that the k-d tree cannot borrow as slices -> its documented panic is acceptable
    let rows_noncontiguous = input.rows().into_iter().any(|r| r.to_slice().is_none());
    let exact = |i: usize, j: usize| -> bool {
        if !case.integer_coords {
            return false;
        }
        match metric {
            Metric::L1 | Metric::LInf => true,
            Metric::L2 => {
                let sq = refmath::sqdist(&pts[i], &pts[j]);
                let rt = sq.sqrt();
                rt * rt == sq
            }
            _ => false,
        }
    };
    let wanted = |at: &At| -> bool {
        match only {
            None => true,
            Some(o) => o.algo == at.algo && o.min_points == at.min_points && o.eps_index == at.eps_index && (o.kind == "all" || o.kind == at.kind || at.kind == "all"),
        }
    };

    let mut eps_list: Vec<(Option<f64>, &'static str)> = tolerances(&dist, tol, case.max_distinct).into_iter().map(|(e, c)| (Some(e), c)).collect();
    eps_list.push((None, "default_infinite"));

    for &mp in &case.min_points {
        for (eps_index, &(eps_opt, eps_class)) in eps_list.iter().enumerate() {
            let eps_f: F = match eps_opt {
                Some(e) => F::from(e).unwrap(),
                None => F::infinity(),
            };
            let eps64 = to_f64(eps_f);
            // the replay artefact stores the tolerance as the subject saw it
            let eps_json = if eps_opt.is_some() { Some(eps64) } else { None };
            let band = tol * scale.max(if eps64.is_finite() { eps64 } else { 1.0 });
            let model: RefModel = reference::build(&dist, eps64, mp, band, &exact);
            let st = reference::dbscan_stats(&model);
            let on_radius = eps64.is_finite() && (0..n).any(|i| (0..n).any(|j| i != j && dist[i][j] == eps64));

            for algo in ["dbscan", "optics"] {
                if algo == "dbscan" && eps_opt.is_none() {
                    continue; // DBSCAN has no infinite default; OPTICS only
                }
                let at_all = At { algo: algo.into(), kind: "all".into(), min_points: mp, eps: eps_json, eps_index, eps_class: eps_class.into() };
                if !wanted(&at_all) {
                    continue;
                }
                let mut db_out: Vec<(&str, Vec<Option<usize>>)> = Vec::new();
                let mut op_out: Vec<(&str, Vec<OSample>)> = Vec::new();
                let mut linear_unsorted = false;
                for (kname, kind) in KINDS.iter() {
                    let at = At { kind: (*kname).into(), ..at_all.clone() };
                    if !wanted(&at) {
                        continue;
                    }
                    cnt.evals += 1;
                    if d == 0 {
                        cnt.zero_feature_runs += 1;
                    }
                    let mut found: Vec<(String, String)> = Vec::new();
                    if n > 1000 {
                        cnt.large_n_runs += 1;
                    }
                    if is32 {
                        cnt.f32_runs += 1;
                    }
                    if algo != "optics" {
                        cnt.dbscan_runs += 1;
                        // the column-major case is handed over as the OWNED array, everything else as a view
                        let run = |dataset_form: bool, standard: bool| -> LabelRun {
                            if standard {
                                label_run(&batch, true, dataset_form, mp, eps_f, &dist_fn, kind)
                            } else if case.layout == "col_major" {
                                label_run(&col_major, true, dataset_form, mp, eps_f, &dist_fn, kind)
                            } else {
                                label_run(&input, false, dataset_form, mp, eps_f, &dist_fn, kind)
                            }
                        };
                        let res = run(false, !nonstandard);
                        if nonstandard {
                            cnt.layout_runs += 1;
                        }
                        let is_documented = |r: &LabelRun| nonstandard && *kname == "kdtree" && rows_noncontiguous && matches!(r, Err(p) if p.contains("views should be contiguous"));
                        if case.dataset_form {
                            cnt.dataset_form_runs += 1;
                            let ds = run(true, !nonstandard);
                            match (&res, &ds) {
                                (Ok(Ok((a, _))), Ok(Ok((b, same)))) => {
                                    if a != b {
                                        found.push((format!("{}.dataset_form_differs", algo), format!("transform(&records) gives {:?} but transform(DatasetBase::from(records)) gives {:?}", a, b)));
                                    } else if !same {
                                        found.push((format!("{}.dataset_form_changes_records", algo), "the dataset returned by transform(DatasetBase) does not carry the records it was given".to_string()));
                                    }
                                }
                                (a, b) if is_documented(a) && is_documented(b) => {}
                                (a, b) => {
                                    let short = |r: &LabelRun| match r {
                                        Ok(Ok(_)) => "labels".to_string(),
                                        Ok(Err(e)) => format!("Err({})", e),
                                        Err(p) => format!("panic({})", p),
                                    };
                                    if short(a) != short(b) {
                                        found.push((format!("{}.dataset_form_differs", algo), format!("array form ends in {} but dataset form ends in {}", short(a), short(b))));
                                    }
                                }
                            }
                        }
                        if is_documented(&res) {
                            cnt.kdtree_documented_noncontiguous_panics += 1;
                            continue;
                        }
                        if nonstandard {
                            if let (Ok(Ok((got, _))), Ok(Ok((std, _)))) = (&res, &run(false, true)) {
                                cnt.layout_runs_compared_with_standard += 1;
                                if got != std {
                                    found.push((format!("{}.layout_dependence", algo), format!("the same matrix in layout {} gives {:?}, in standard layout {:?}", case.layout, got, std)));
                                }
                            }
                        }
                        match res {
                            Err(p) => found.push((format!("{}.panic.{}", algo, kname), format!("{} on {} samples panicked: {}", algo, n, p))),
                            Ok(Err(e)) => found.push((format!("{}.valid_params_rejected", algo), format!("min_points {} / tolerance {} rejected: {}", mp, eps64, e))),
                            Ok(Ok((labels, _))) => {
                                if d == 0 {
                                    // deliberate branch of the subject (BuildError::ZeroDimension): nothing clusters
                                    if labels.len() != n || labels.iter().any(|l| l.is_some()) {
                                        found.push(("dbscan.zero_features.not_all_noise".into(), format!("zero-feature input of {} rows gave {:?}", n, labels)));
                                    }
                                } else if model.ambiguous {
                                    reference::check_dbscan_structure(n, &labels, &mut found);
                                } else {
                                    reference::check_dbscan(&model, &labels, &mut found);
                                }
                                db_out.push((*kname, labels));
                            }
                        }
                    } else {
                        cnt.optics_runs += 1;
                        if eps_opt.is_none() {
                            cnt.optics_inf_tolerance_runs += 1;
                        }
                        let run = |x: &ArrayView2<F>| {
                            guarded(|| {
                                let params = Optics::params_with::<F, D, CommonNearestNeighbour>(mp, dist_fn.clone(), kind.clone());
                                let params = if eps_opt.is_some() { params.tolerance(eps_f) } else { params };
                                params
                                    .check()
                                    .map(|p| {
                                        let an = p.transform(x.view());
                                        an.iter().map(|s| (s.index(), s.core_distance().map(to_f64), s.reachability_distance().map(to_f64))).collect::<Vec<OSample>>()
                                    })
                                    .map_err(|e| e.to_string())
                            })
                        };
                        let res = run(&input);
                        if nonstandard {
                            cnt.layout_runs += 1;
                        }
                        let documented = nonstandard && *kname == "kdtree" && rows_noncontiguous && matches!(&res, Err(p) if p.contains("views should be contiguous"));
                        if documented {
                            cnt.kdtree_documented_noncontiguous_panics += 1;
                            continue;
                        }
                        if nonstandard {
                            if let (Ok(Ok(got)), Ok(Ok(std))) = (&res, &run(&batch.view())) {
                                cnt.layout_runs_compared_with_standard += 1;
                                let bits = |v: &Vec<OSample>| -> Vec<(usize, Option<u64>, Option<u64>)> { v.iter().map(|s| (s.0, s.1.map(f64::to_bits), s.2.map(f64::to_bits))).collect() };
                                if bits(got) != bits(std) {
                                    found.push(("optics.layout_dependence".into(), format!("the same matrix in layout {} gives {:?}, in standard layout {:?}", case.layout, got, std)));
                                }
                            }
                        }
                        match res {
                            Err(p) => found.push((format!("optics.panic.{}", kname), format!("OPTICS on {} samples panicked: {}", n, p))),
                            Ok(Err(e)) => found.push(("optics.valid_params_rejected".into(), format!("min_points {} / tolerance {} rejected: {}", mp, eps64, e))),
                            Ok(Ok(obs)) => {
                                if d == 0 {
                                    let ok = reference::check_optics_structure(n, &obs, &mut found);
                                    if ok && obs.iter().any(|s| s.1.is_some() || s.2.is_some()) {
                                        found.push(("optics.zero_features.defined_distance".into(), format!("zero-feature input of {} rows gave {:?}", n, obs)));
                                    }
                                } else if model.ambiguous {
                                    reference::check_optics_structure(n, &obs, &mut found);
                                } else {
                                    let v = reference::check_optics(&model, &dist, &obs, rel, scale, &mut found);
                                    if *kname == "linear" && v.unsorted_core_distance {
                                        linear_unsorted = true;
                                    }
                                    cnt.optics_undefined_core_seen += obs.iter().filter(|s| s.1.is_none()).count() as u64;
                                    cnt.optics_defined_reachability_seen += obs.iter().filter(|s| s.2.is_some()).count() as u64;
                                }
                                op_out.push((*kname, obs));
                            }
                        }
                    }
                    // counting (per run)
                    if d > 0 && model.ambiguous {
                        cnt.indeterminate += 1;
                    } else if d > 0 {
                        if eps_class == "B_exact" {
                            cnt.class_b_runs_decided += 1;
                            if on_radius {
                                cnt.class_b_runs_with_point_exactly_on_tolerance += 1;
                            }
                        }
                        if algo != "optics" {
                            let all_core_one = st.clusters == 1 && model.core.iter().all(|&c| c);
                            if st.clusters >= 1 && !all_core_one {
                                cnt.nontrivial += 1;
                            }
                            cnt.border_points += st.border;
                            cnt.border_points_reachable_from_two_clusters += st.border_multi;
                            cnt.noise_points += st.noise;
                            if st.clusters >= 2 {
                                cnt.runs_with_two_or_more_clusters += 1;
                            }
                        } else {
                            let defined = model.cd.iter().filter(|c| c.is_some()).count();
                            let mut vals: Vec<u64> = model.cd.iter().map(|c| c.map_or(u64::MAX, |x| x.to_bits())).collect();
                            vals.sort();
                            vals.dedup();
                            if defined >= 1 && vals.len() >= 2 {
                                cnt.nontrivial += 1;
                            }
                        }
                    }
                    for (sig, what) in found {
                        viols.push(Found { sig, what: clip(format!("[{} {} {} {} {} n={} min_points={} tolerance={} ({})] {}", algo, kname, case.metric, case.float, case.layout, n, mp, eps64, eps_class, what)), at: at.clone() });
                    }
                }
                // ---- independence of the neighbour index: bit-identical outputs ----
                if only.map_or(true, |o| o.kind == "all") && !(d > 0 && model.ambiguous) {
                    if algo == "dbscan" && db_out.len() >= 2 {
                        cnt.index_triples_compared += 1;
                        if db_out.iter().any(|o| o.1 != db_out[0].1) {
                            viols.push(Found {
                                sig: "dbscan.index_dependence".into(),
                                what: clip(format!(
                                    "[dbscan {} {} n={} min_points={} tolerance={} ({})] labelling depends on the neighbour index: {:?}",
                                    case.metric, case.float, n, mp, eps64, eps_class, db_out
                                )),
                                at: at_all.clone(),
                            });
                        }
                    }
                    if algo == "optics" && op_out.len() >= 2 {
                        cnt.index_triples_compared += 1;
                        let bits = |v: &Vec<OSample>| -> Vec<(usize, Option<u64>, Option<u64>)> { v.iter().map(|s| (s.0, s.1.map(f64::to_bits), s.2.map(f64::to_bits))).collect() };
                        let all: Vec<_> = op_out.iter().map(|o| bits(&o.1)).collect();
                        if all.iter().any(|x| *x != all[0]) {
                            let others_agree = all[1..].iter().all(|x| *x == all[1]);
                            let sig = if op_out[0].0 == "linear" && others_agree && linear_unsorted { "optics.index_dependence.linear_unsorted_core_distance" } else { "optics.index_dependence" };
                            viols.push(Found {
                                sig: sig.into(),
                                what: clip(format!(
                                    "[optics {} {} n={} min_points={} tolerance={} ({})] analysis depends on the neighbour index: {:?}",
                                    case.metric, case.float, n, mp, eps64, eps_class, op_out
                                )),
                                at: at_all.clone(),
                            });
                        }
                    }
                }
            }
        }
    }
    cnt
}

fn replay_value(v: &Value) -> Vec<Violation> {
    if v.get("builder").is_some() {
        return builder::replay(v);
    }
    let c: Case = match serde_json::from_value(v.clone()) {
        Ok(c) => c,
        Err(e) => {
            println!("MACHINERY-ERROR replay case does not parse: {}", e);
            std::process::exit(2);
        }
    };
    let at: Option<At> = v.get("at").and_then(|a| serde_json::from_value(a.clone()).ok());
    let mut out = Vec::new();
    run_case(&c, at.as_ref(), &mut out);
    if let Some(at) = at {
        // keep the violations that belong to the recorded run
        out.retain(|x| x.at.same_run(&at));
    }
    out.into_iter().map(|f| to_violation(&c, f, true)).collect()
}

fn ints(p: &[i64]) -> Vec<f64> {
    p.iter().map(|&v| v as f64).collect()
}

fn main() {
    let ctx = Ctx::new("C08", Level::Exploration);
    ctx.maybe_replay(&replay_value);
    ctx.set_rule(
        "cases = (point set in a fixed row order, float type, metric); families: every sequence (= every row order of every multiset) of <=5 (quick) / <=6 (thorough) \
         values of {0..5} in 1-D (thorough: also every sequence of 7 values of {0..4}, L2 only), every multiset of 6 (quick) / 6..8 (thorough) values of {0..5} in sorted order, every subset of <=5 / <=6 points of the 3x3 lattice in \
         lexicographic order and its generic-position image (constant jitter table), every ordered selection of <=4 / <=5 lattice points (row orders), every multiset of <=5 points \
         of the 2x2 lattice with duplicates, every subset of <=4 / <=5 corners of the unit cube (3-D), the 5x4 lattice and the 1-D line {0..19} with <=1 / <=3 points removed \
         (n = 17..20 > default leaf size 16, so the k-d tree and the ball tree really branch), two 1-D blobs with a bridge position (0..3 / 0..4 copies at each of 5 positions, three row orders; L2 only), zero-feature matrices with 0..5 rows, empty matrices; the lattice3x3 / lattice2x2 / cube / 5x4 families (thorough: also the row-order family) are repeated in three further memory layouts of the same matrix \
         (column-major, transposed view, reversed-rows view, every-second-row view); two n = 1025 point sets; a builder-history sub-sweep (every constructor x every setter sequence of length <= 3 with decoy writes, see assumptions); \
         per case: min_points 2..4 (2..5 for the large families), tolerances of class A (below the smallest positive inter-point distance, every midpoint between consecutive \
         distinct distances, above the largest) and class B (exactly every distinct inter-point distance), the three neighbour indices, DBSCAN and OPTICS, OPTICS also with its default \
         infinite tolerance. evaluation = one transform call; non-trivial = DBSCAN run whose reference clustering has a core point and is not 'all points core in one cluster', \
         OPTICS run with a defined core distance and at least two distinct core-distance values (undefined counts as a value), builder variant with at least one setter call whose canonical result clusters something; distinct by construction of the enumerators.",
    );
    ctx.assume("reference = brute-force f64 distance table from the coordinates as rounded to the subject's float type; neighbourhood = OPEN ball {d < tolerance} (point itself included), the convention of all three linfa-nn indices (class B tolerances pin it)");
    ctx.assume("class B is decided only where exact arithmetic decides it: integer coordinates with L1 / Linf, or L2 with a perfect-square squared distance; a run in which some pair lies within 1e-11 (f64) / 2e-5 (f32) relative of the tolerance without being exactly decidable is counted indeterminate and only checked structurally (permutation / gap-free labels / no panic)");
    ctx.assume("core and reachability distances are compared with relative tolerance 1e-9 (f64) / 1e-4 (f32); labels, orderings and the cross-index comparison (bit-identical outputs of the three indices) are exact");
    ctx.assume("OPTICS reachability is only required to be undefined or max(core(o), d(o,p)) for SOME core o within the tolerance listed no later than p (o = p allowed), as the statement says; minimality over all predecessors and the visiting order are not demanded");
    ctx.assume("zero-feature matrices: the subject deliberately maps BuildError::ZeroDimension to 'nothing clusters' (DBSCAN all noise, OPTICS every sample once with undefined distances); this boundary input is checked for exactly that behaviour on all indices, not against the distance-0 reading of the definition");
    ctx.assume("AppxDbscan is a type alias of Dbscan in this tree (linfa-clustering/src/lib.rs; the old appx_dbscan module is not compiled), so it has no separate run");
    ctx.assume("DBSCAN is also called in the dataset form transform(DatasetBase::from(records)) on the layout and n=1025 families: same labels as the array form, records handed back unchanged; OPTICS only has the array-view form");
    ctx.assume("n = 1025 families use the tolerances derived from the 3 smallest distinct inter-point distances only (plus the OPTICS default infinite tolerance)");
    ctx.assume("memory layout: the 2-D / 3-D lattice families and the n=1025 grid are additionally passed as a column-major owned array, as the transposed view of a feature-major array, as a reversed-rows view of a reversed copy and as an every-second-row view of a larger array whose filler rows hold poison values (logically the same matrix, asserted); each run must satisfy the same oracle AND equal the standard-layout result bit for bit; only for the k-d tree on an input whose rows are not contiguous the documented panic ('views should be contiguous', rustdoc of linfa_nn::KdTree) is accepted instead - nothing else");
    ctx.assume("builder histories: for every 4-point (thorough: 3..5-point) subset of the 3x3 lattice, min_points 2..3, DBSCAN and OPTICS, distance types L2Dist and LpDist (real exponent 1, decoy 3), the constructors params(m) / params_with(m, decoy distance, decoy index) / params_with(m, real distance, real index) and EVERY sequence of <= 3 calls of the setters tolerance / nn_algo / dist_fn with real or decoy values (plus all 6 orders of the real writes after a full decoy prefix): the getters of the checked params must equal the final parameter set of a last-write-wins model and the result must be bit-identical to params_with(m, dist, index).tolerance(t) of that final set; neither algorithm has a min_points setter (constructor argument only)");
    ctx.assume("upstream routing (linfa-nn): point sets with 4, 5, 6, 7 and 9 features whose deciding coordinate cycles through every feature index, metrics L1 / L2 / Linf / Lp(3) there and on the 0.125-scaled 3x3 lattice; 0.125- and 0.1-scaled copies of the > 16-point families (tolerances below 1, every index has more than one leaf) and of the n=1025 grid; a reversed FEATURE axis in the layout list (rows of stride -1: the k-d tree's documented panic is accepted there too)");
    ctx.assume("min_points >= 2 and tolerance > 0 only (the parameter guards are C04's subject); finite coordinates");

    // ---------------- enumerate cases ----------------
    struct PointSet {
        family: &'static str,
        points: Vec<Vec<f64>>,
        dim: usize,
        integer: bool,
        floats: &'static [&'static str],
        metrics: &'static [&'static str],
        min_points: &'static [usize],
        layouts: bool,
    }
    const BOTH: &[&str] = &["f64", "f32"];
    const F64: &[&str] = &["f64"];
    const ALL_METRICS: &[&str] = &["L1", "L2", "Linf"];
    const L2_ONLY: &[&str] = &["L2"];
    const FOUR_METRICS: &[&str] = &["L1", "L2", "Linf", "Lp3"];
    const MP_SMALL: &[usize] = &[2, 3, 4];
    const MP_LARGE: &[usize] = &[2, 3, 4, 5];
    let mut sets: Vec<PointSet> = Vec::new();
    let thorough = ctx.thorough();
    let mut add = |family: &'static str, points: Vec<Vec<f64>>, dim: usize, integer: bool, floats: &'static [&'static str], metrics: &'static [&'static str], min_points: &'static [usize]| {
        let layouts = dim >= 2 && match family {
            "lattice3x3" | "lattice2x2_multiset" | "cube2x2x2" | "lattice5x4_minus" => true,
            "lattice3x3_order" => thorough,
            _ => false,
        };
        sets.push(PointSet { family, points, dim, integer, floats, metrics, min_points, layouts });
    };
    // A: 1-D, every row order of every multiset (chains, duplicates, isolated noise)
    for s in en::sequences_upto(ctx.pick(5, 6), 6) {
        add("1d_sequence", s.iter().map(|&i| vec![i as f64]).collect(), 1, true, F64, ALL_METRICS, MP_SMALL);
    }
    if ctx.thorough() {
        // one point more over the alphabet {0..4}; in 1-D the three metrics coincide, L2 only
        for s in en::sequences(7, 5) {
            add("1d_sequence7", s.iter().map(|&i| vec![i as f64]).collect(), 1, true, F64, L2_ONLY, MP_SMALL);
        }
    }
    // A': larger 1-D multisets in sorted order, both float types
    for ms in en::multisets_upto(6, 6, ctx.pick(6, 8), 8) {
        add("1d_multiset", ms.iter().map(|&i| vec![i as f64]).collect(), 1, true, BOTH, ALL_METRICS, MP_SMALL);
    }
    // B: 3x3 lattice subsets (rings, touching clusters) + generic-position images
    let lat = en::lattice_points(2, 3);
    for ss in en::subsets_upto(9, 1, ctx.pick(5, 6)) {
        add("lattice3x3", ss.iter().map(|&i| ints(&lat[i])).collect(), 2, true, BOTH, ALL_METRICS, MP_SMALL);
        let g: Vec<Vec<f64>> = ss.iter().map(|&i| lat[i].iter().enumerate().map(|(j, &v)| v as f64 + en::jitter(i, j)).collect()).collect();
        add("lattice3x3_generic", g, 2, false, F64, ALL_METRICS, MP_SMALL);
    }
    // B': row orders of lattice point sets
    for k in 2..=ctx.pick(4, 5) {
        for a in en::arrangements(9, k) {
            if a.windows(2).all(|w| w[0] < w[1]) {
                continue; // the sorted order is already in family B
            }
            add("lattice3x3_order", a.iter().map(|&i| ints(&lat[i])).collect(), 2, true, F64, ALL_METRICS, MP_SMALL);
        }
    }
    // C: 2-D duplicates
    let lat2 = en::lattice_points(2, 2);
    for ms in en::multisets_upto(4, 1, 5, 3) {
        add("lattice2x2_multiset", ms.iter().map(|&i| ints(&lat2[i])).collect(), 2, true, BOTH, ALL_METRICS, MP_SMALL);
    }
    // D: 3-D
    let cube = en::lattice_points(3, 2);
    for ss in en::subsets_upto(8, 1, ctx.pick(4, 5)) {
        add("cube2x2x2", ss.iter().map(|&i| ints(&cube[i])).collect(), 3, true, F64, ALL_METRICS, MP_SMALL);
    }
    // E: more points than the default leaf size (16): the trees branch
    let big = {
        let mut v = Vec::new();
        for a in 0..5i64 {
            for b in 0..4i64 {
                v.push(vec![a as f64, b as f64]);
            }
        }
        v
    };
    for removed in en::subsets_upto(20, 0, ctx.pick(1, 3)) {
        let keep: Vec<usize> = (0..20).filter(|i| !removed.contains(i)).collect();
        add("lattice5x4_minus", keep.iter().map(|&i| big[i].clone()).collect(), 2, true, F64, ALL_METRICS, MP_LARGE);
        add("line20_minus", keep.iter().map(|&i| vec![i as f64]).collect(), 1, true, F64, ALL_METRICS, MP_LARGE);
    }
    // E': two 1-D blobs and a bridge position between them (touching clusters: the bridge is a border
    // point of both, or a core point that merges them): multiplicities at the positions 0,1 | 2 | 3,4,
    // in three row orders (sorted, bridge rows first, reversed)
    for mult in en::grid(&[ctx.pick(4, 5); 5]) {
        let sorted: Vec<Vec<f64>> = (0..5).flat_map(|pos| std::iter::repeat(vec![pos as f64]).take(mult[pos])).collect();
        if sorted.len() < 3 {
            continue;
        }
        let mut bridge_first: Vec<Vec<f64>> = sorted.iter().filter(|p| p[0] == 2.0).cloned().collect();
        bridge_first.extend(sorted.iter().filter(|p| p[0] != 2.0).cloned());
        let mut reversed = sorted.clone();
        reversed.reverse();
        add("1d_bridge", sorted.clone(), 1, true, F64, L2_ONLY, MP_LARGE);
        if bridge_first != sorted {
            add("1d_bridge", bridge_first, 1, true, F64, L2_ONLY, MP_LARGE);
        }
        if reversed != sorted {
            add("1d_bridge", reversed, 1, true, F64, L2_ONLY, MP_LARGE);
        }
    }
    // H: 4, 5, 6, 7 and 9 features (distance kernels with chunked fast paths): a 1-D multiset laid along
    // feature j (j cycles through EVERY feature index), with smaller dyadic offsets in two other features so
    // that L1 / L2 / Lp see several coordinates while the Chebyshev distance is decided by feature j alone
    {
        let vals = [0.0, 1.0, 2.0, 4.0];
        for &d in &[4usize, 5, 6, 7, 9] {
            for j in 0..d {
                for ms in en::multisets_upto(4, 4, ctx.pick(4, 5), 5) {
                    let pts: Vec<Vec<f64>> = ms
                        .iter()
                        .enumerate()
                        .map(|(i, &v)| {
                            let mut p = vec![0.0; d];
                            p[(j + 1) % d] = 0.5 * (i % 2) as f64;
                            p[(j + 2) % d] = 0.25 * (i % 3) as f64;
                            p[j] = vals[v];
                            p
                        })
                        .collect();
                    add("embedded_in_4_5_6_7_9_features", pts, d, true, if thorough { BOTH } else { F64 }, FOUR_METRICS, MP_SMALL);
                }
            }
        }
    }
    // I: sub-unit coordinate scales (squared vs plain distance confusions are invisible at scales >= 1):
    // dyadic scale 0.125 keeps the arithmetic exact (class B stays decidable), scale 0.1 does not
    let scale_pts = |pts: &[Vec<f64>], s: f64| -> Vec<Vec<f64>> { pts.iter().map(|p| p.iter().map(|&x| x * s).collect()).collect() };
    for ss in en::subsets_upto(9, 1, ctx.pick(5, 6)) {
        let p: Vec<Vec<f64>> = ss.iter().map(|&i| ints(&lat[i])).collect();
        add("lattice3x3_x0.125", scale_pts(&p, 0.125), 2, true, F64, FOUR_METRICS, MP_SMALL);
    }
    for removed in en::subsets_upto(20, 0, ctx.pick(1, 2)) {
        let keep: Vec<usize> = (0..20).filter(|i| !removed.contains(i)).collect();
        let g: Vec<Vec<f64>> = keep.iter().map(|&i| big[i].clone()).collect();
        let l: Vec<Vec<f64>> = keep.iter().map(|&i| vec![i as f64]).collect();
        add("lattice5x4_minus_x0.125", scale_pts(&g, 0.125), 2, true, F64, ALL_METRICS, MP_LARGE);
        add("line20_minus_x0.125", scale_pts(&l, 0.125), 1, true, F64, ALL_METRICS, MP_LARGE);
        add("lattice5x4_minus_x0.1", scale_pts(&g, 0.1), 2, false, F64, ALL_METRICS, MP_LARGE);
    }
    for removed in en::subsets_upto(40, 0, 1) {
        let l: Vec<Vec<f64>> = (0..40).filter(|i| !removed.contains(i)).map(|i| vec![i as f64 * 0.1]).collect();
        add("line40_minus_x0.1", l, 1, false, F64, ALL_METRICS, MP_LARGE);
    }
    // F: zero features, empty matrices
    for n in 0..=5usize {
        add("zero_features", vec![vec![]; n], 0, true, BOTH, ALL_METRICS, MP_SMALL);
    }
    for d in 1..=3usize {
        add("empty", vec![], d, true, BOTH, ALL_METRICS, MP_SMALL);
    }

    let mut cases: Vec<Case> = Vec::new();
    let mut per_family: std::collections::BTreeMap<String, u64> = Default::default();
    for ps in &sets {
        for f in ps.floats {
            for m in ps.metrics {
                // quick tier: the (largest) lattice3x3 family gets its extra layouts in f64 only and no dataset form
                let slim = !thorough && ps.family == "lattice3x3";
                let layouts: &[&str] = if ps.layouts && !(slim && *f == "f32") { &["standard", "col_major", "transposed_view", "reversed_rows_view", "every_second_row_view", "reversed_features_view"] } else { &["standard"] };
                for l in layouts {
                    *per_family.entry(if *l == "standard" { ps.family.to_string() } else { format!("{}@{}", ps.family, l) }).or_default() += 1;
                    cases.push(Case { family: ps.family.into(), points: ps.points.clone(), dim: ps.dim, float: (*f).into(), metric: (*m).into(), integer_coords: ps.integer, min_points: ps.min_points.to_vec(), layout: (*l).into(), max_distinct: 0, dataset_form: (ps.layouts && !slim) || ps.family == "1d_multiset" });
                }
            }
        }
    }
    // G: n = 1025 (> 1024): queues, seed lists and tree depths at scale. One case per min_points value so
    // that the sweep can spread them over the cores; tolerances from the 3 smallest distinct distances.
    // G1: 41 x 25 unit grid whose right part (x >= 20) is shifted by one (two big clusters that merge
    //     once the tolerance exceeds 2), three grid points replaced by far-away noise, rows permuted
    let grid_big: Vec<Vec<f64>> = (0..1025usize)
        .map(|k| {
            let g = (k * 7) % 1025;
            let (x, y) = (g / 25, g % 25);
            if g < 3 {
                vec![200.0 + 50.0 * g as f64, 300.0]
            } else {
                vec![(x + if x >= 20 { 1 } else { 0 }) as f64, y as f64]
            }
        })
        .collect();
    // G2: a 5-point pattern replicated 205 times on a coarse grid (pitch 10), copies interleaved
    let pattern = [[0.0, 0.0], [1.0, 0.0], [2.0, 0.0], [2.0, 1.0], [0.0, 2.0]];
    let replicated: Vec<Vec<f64>> = (0..1025usize)
        .map(|k| {
            let (copy, e) = (k % 205, k / 205);
            vec![pattern[e][0] + 10.0 * (copy / 14) as f64, pattern[e][1] + 10.0 * (copy % 14) as f64]
        })
        .collect();
    let mut big: Vec<(&'static str, &Vec<Vec<f64>>, &'static str, &'static str, &'static str)> = Vec::new(); // family, points, float, metric, layout
    for l in ctx.pick(&["standard", "col_major"][..], &["standard", "col_major", "transposed_view", "reversed_rows_view", "every_second_row_view", "reversed_features_view"][..]) {
        for m in ctx.pick(L2_ONLY, ALL_METRICS) {
            big.push(("grid41x25_shifted_n1025", &grid_big, "f64", m, l));
        }
    }
    big.push(("grid41x25_shifted_n1025", &grid_big, "f32", "L2", "standard"));
    let grid_big_small: Vec<Vec<f64>> = grid_big.iter().map(|p| p.iter().map(|&x| x * 0.125).collect()).collect();
    big.push(("grid41x25_shifted_n1025_x0.125", &grid_big_small, "f64", "L2", "standard"));
    if ctx.thorough() {
        big.push(("grid41x25_shifted_n1025", &grid_big, "f32", "L2", "transposed_view"));
        big.push(("pattern5_x205_n1025", &replicated, "f64", "L2", "standard"));
        big.push(("pattern5_x205_n1025", &replicated, "f64", "L2", "every_second_row_view"));
        big.push(("pattern5_x205_n1025", &replicated, "f32", "L2", "standard"));
    }
    for (fam, pts, f, m, l) in big {
        for &mp in MP_LARGE {
            *per_family.entry(if l == "standard" { fam.to_string() } else { format!("{}@{}", fam, l) }).or_default() += 1;
            cases.push(Case { family: fam.into(), points: pts.clone(), dim: 2, float: f.into(), metric: m.into(), integer_coords: true, min_points: vec![mp], layout: l.into(), max_distinct: 3, dataset_form: true });
        }
    }
    // the n = 1025 cases are the longest single work items: swept on their own first (a handful of
    // items, one per core) so that they do not end up in one sequential chunk of the big sweep
    let (big_cases, small_cases): (Vec<Case>, Vec<Case>) = cases.iter().cloned().partition(|c| c.points.len() > 1000);
    ctx.extra("point_sets", json!(sets.len()));
    ctx.extra("cases_enumerated", json!(cases.len()));
    ctx.extra("cases_per_family", json!(per_family));

    let done = AtomicU64::new(0);
    let total = std::sync::Mutex::new(Counters::default());
    // The case JSON is attached to the first FULL_PER_SIG violations of every signature only (the
    // driver keeps 3 per signature); counting and delivery happen under one lock, so the ones the
    // driver keeps are always complete.
    const FULL_PER_SIG: u64 = 16;
    let delivered: std::sync::Mutex<std::collections::HashMap<String, u64>> = Default::default();
    let work = |c: &Case| {
        let mut v = Vec::new();
        let cnt = run_case(c, None, &mut v);
        ctx.evals(cnt.evals, cnt.nontrivial);
        for _ in 0..cnt.indeterminate {
            ctx.indeterminate();
        }
        if !v.is_empty() {
            let mut seen = delivered.lock().unwrap();
            for f in v {
                let k = seen.entry(f.sig.clone()).or_insert(0);
                *k += 1;
                let full = *k <= FULL_PER_SIG;
                ctx.violation(to_violation(c, f, full));
            }
        }
        {
            let mut t = total.lock().unwrap();
            t.dbscan_runs += cnt.dbscan_runs;
            t.optics_runs += cnt.optics_runs;
            t.class_b_runs_decided += cnt.class_b_runs_decided;
            t.class_b_runs_with_point_exactly_on_tolerance += cnt.class_b_runs_with_point_exactly_on_tolerance;
            t.border_points += cnt.border_points;
            t.border_points_reachable_from_two_clusters += cnt.border_points_reachable_from_two_clusters;
            t.noise_points += cnt.noise_points;
            t.runs_with_two_or_more_clusters += cnt.runs_with_two_or_more_clusters;
            t.optics_inf_tolerance_runs += cnt.optics_inf_tolerance_runs;
            t.optics_undefined_core_seen += cnt.optics_undefined_core_seen;
            t.optics_defined_reachability_seen += cnt.optics_defined_reachability_seen;
            t.zero_feature_runs += cnt.zero_feature_runs;
            t.index_triples_compared += cnt.index_triples_compared;
            t.layout_runs += cnt.layout_runs;
            t.layout_runs_compared_with_standard += cnt.layout_runs_compared_with_standard;
            t.kdtree_documented_noncontiguous_panics += cnt.kdtree_documented_noncontiguous_panics;
            t.dataset_form_runs += cnt.dataset_form_runs;
            t.large_n_runs += cnt.large_n_runs;
            t.f32_runs += cnt.f32_runs;
        }
        done.fetch_add(1, Ordering::Relaxed);
        ctx.sample(|| json!({"family": c.family, "points": c.points, "float": c.float, "metric": c.metric, "min_points": c.min_points, "layout": c.layout}));
    };
    par_sweep(&ctx, "density clustering sweep (n = 1025)", &big_cases, &work);
    par_sweep(&ctx, "density clustering sweep", &small_cases, &work);
    // ---------------- builder histories (constructors x setter sequences) ----------------
    let mut bcases: Vec<builder::BuilderCase> = Vec::new();
    {
        let lat = en::lattice_points(2, 3);
        let sizes: Vec<usize> = ctx.pick(vec![4], vec![3, 4, 5]);
        let floats: Vec<&str> = ctx.pick(vec!["f64"], vec!["f64", "f32"]);
        let mut i = 0usize;
        for &sz in &sizes {
            for ss in en::k_subsets(9, sz) {
                let pts: Vec<Vec<f64>> = ss.iter().map(|&i| ints(&lat[i])).collect();
                for mp in [2usize, 3] {
                    for f in &floats {
                        // real tolerance 1.2 (between 1 and sqrt 2), decoy 2.6; the real / decoy index kinds rotate
                        bcases.push(builder::BuilderCase { builder: true, points: pts.clone(), dim: 2, float: (*f).into(), min_points: mp, tol_real: 1.25, tol_decoy: 2.5, kind_real: i % 3, kind_decoy: (i + 1 + (i / 3) % 2) % 3, variant: None });
                        i += 1;
                    }
                }
            }
        }
    }
    let b_evals = AtomicU64::new(0);
    let b_states = AtomicU64::new(0);
    let b_done = AtomicU64::new(0);
    par_sweep(&ctx, "builder histories", &bcases, |c| {
        let mut v = Vec::new();
        let cnt = builder::run_case(c, &mut v);
        ctx.evals(cnt.evals, cnt.nontrivial);
        b_evals.fetch_add(cnt.evals, Ordering::Relaxed);
        b_states.fetch_add(cnt.final_states_seen, Ordering::Relaxed);
        b_done.fetch_add(1, Ordering::Relaxed);
        ctx.violations(v);
        ctx.sample(|| builder::sample(c));
    });
    if b_done.load(Ordering::Relaxed) != bcases.len() as u64 {
        ctx.capped(&format!("only {} of {} builder cases completed", b_done.load(Ordering::Relaxed), bcases.len()));
    }
    ctx.extra("builder_cases", json!(bcases.len()));
    ctx.extra("builder_setter_sequences_per_constructor", json!(builder::sequences().len()));
    ctx.extra("builder_variants_run", json!(b_evals.load(Ordering::Relaxed)));
    ctx.extra("builder_final_parameter_states_with_canonical_run", json!(b_states.load(Ordering::Relaxed)));
    let t = total.lock().unwrap().clone();
    let completed = done.load(Ordering::Relaxed);
    ctx.extra("cases_completed", json!(completed));
    if completed != cases.len() as u64 {
        ctx.capped(&format!("only {} of {} cases completed", completed, cases.len()));
    }
    ctx.extra("dbscan_runs", json!(t.dbscan_runs));
    ctx.extra("optics_runs", json!(t.optics_runs));
    ctx.extra("class_b_runs_decided_exactly", json!(t.class_b_runs_decided));
    ctx.extra("class_b_runs_with_a_pair_exactly_on_the_tolerance", json!(t.class_b_runs_with_point_exactly_on_tolerance));
    ctx.extra("dbscan_border_points_seen", json!(t.border_points));
    ctx.extra("dbscan_border_points_reachable_from_two_clusters", json!(t.border_points_reachable_from_two_clusters));
    ctx.extra("dbscan_noise_points_seen", json!(t.noise_points));
    ctx.extra("dbscan_runs_with_two_or_more_clusters", json!(t.runs_with_two_or_more_clusters));
    ctx.extra("optics_runs_with_default_infinite_tolerance", json!(t.optics_inf_tolerance_runs));
    ctx.extra("optics_samples_with_undefined_core_distance", json!(t.optics_undefined_core_seen));
    ctx.extra("optics_samples_with_defined_reachability", json!(t.optics_defined_reachability_seen));
    ctx.extra("zero_feature_runs", json!(t.zero_feature_runs));
    ctx.extra("index_triples_compared_bitwise", json!(t.index_triples_compared));
    ctx.extra("nonstandard_layout_runs", json!(t.layout_runs));
    ctx.extra("nonstandard_layout_runs_compared_bitwise_with_standard_layout", json!(t.layout_runs_compared_with_standard));
    ctx.extra("kdtree_documented_noncontiguous_row_panics_accepted", json!(t.kdtree_documented_noncontiguous_panics));
    ctx.extra("dataset_form_runs_compared_with_array_form", json!(t.dataset_form_runs));
    ctx.extra("runs_with_n_1025", json!(t.large_n_runs));
    ctx.extra("f32_runs", json!(t.f32_runs));
    ctx.finish(&replay_value);
}
