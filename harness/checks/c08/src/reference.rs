//! Reference model for C08: density clustering recomputed from the definitions on a plain f64
//! distance table (no linfa code), and the checkers that compare an observed DBSCAN labelling /
//! OPTICS ordering against it. Neighbourhoods are OPEN balls {d < eps} (the convention of all
//! three linfa-nn indices since the C07 fix).

use lvmc_core::close;

pub struct RefModel {
    pub n: usize,
    pub min_points: usize,
    /// tolerance as the subject sees it (after rounding to its float type); may be +inf
    pub eps: f64,
    /// open neighbourhoods, ascending index order, the point itself included
    pub nb: Vec<Vec<usize>>,
    pub core: Vec<bool>,
    /// component id of every core point in the graph "core points within eps of each other"
    pub comp: Vec<Option<usize>>,
    pub ncomp: usize,
    /// OPTICS core distance: distance to the min_points-th nearest sample (itself included) when
    /// that one lies inside the open ball, undefined otherwise
    pub cd: Vec<Option<f64>>,
    /// some pair of points lies within the float band of eps without the comparison being decidable
    /// in exact arithmetic: membership of that pair is a rounding artefact -> case is indeterminate
    pub ambiguous: bool,
}

/// `exact(i, j)` tells whether dist[i][j] is known to be exactly representable (integer lattice
/// and L1 / Linf, or L2 with a perfect-square squared distance).
pub fn build(dist: &[Vec<f64>], eps: f64, min_points: usize, band: f64, exact: &dyn Fn(usize, usize) -> bool) -> RefModel {
    let n = dist.len();
    let mut ambiguous = false;
    let mut nb = vec![Vec::new(); n];
    for i in 0..n {
        for j in 0..n {
            let d = dist[i][j];
            if eps.is_finite() && i != j && (d - eps).abs() <= band && !(exact(i, j) && d == eps) {
                ambiguous = true;
            }
            if d < eps {
                nb[i].push(j);
            }
        }
    }
    let core: Vec<bool> = (0..n).map(|i| nb[i].len() >= min_points).collect();
    let mut comp: Vec<Option<usize>> = vec![None; n];
    let mut ncomp = 0;
    for s in 0..n {
        if !core[s] || comp[s].is_some() {
            continue;
        }
        let mut stack = vec![s];
        comp[s] = Some(ncomp);
        while let Some(p) = stack.pop() {
            for &q in &nb[p] {
                if core[q] && comp[q].is_none() {
                    comp[q] = Some(ncomp);
                    stack.push(q);
                }
            }
        }
        ncomp += 1;
    }
    let cd: Vec<Option<f64>> = (0..n)
        .map(|i| {
            let mut ds = dist[i].clone();
            ds.sort_by(|a, b| a.partial_cmp(b).unwrap());
            match ds.get(min_points - 1) {
                Some(&d) if d < eps => Some(d),
                _ => None,
            }
        })
        .collect();
    RefModel { n, min_points, eps, nb, core, comp, ncomp, cd, ambiguous }
}

pub struct DbscanStats {
    pub border: u64,
    pub border_multi: u64,
    pub noise: u64,
    pub clusters: usize,
}

pub fn dbscan_stats(m: &RefModel) -> DbscanStats {
    let mut s = DbscanStats { border: 0, border_multi: 0, noise: 0, clusters: m.ncomp };
    for p in 0..m.n {
        if m.core[p] {
            continue;
        }
        let mut comps: Vec<usize> = m.nb[p].iter().filter_map(|&q| m.comp[q]).collect();
        comps.sort();
        comps.dedup();
        match comps.len() {
            0 => s.noise += 1,
            1 => s.border += 1,
            _ => {
                s.border += 1;
                s.border_multi += 1
            }
        }
    }
    s
}

/// Structural part (holds whatever the neighbourhoods are): length, labels are 0..c-1 without gaps.
pub fn check_dbscan_structure(n: usize, labels: &[Option<usize>], out: &mut Vec<(String, String)>) -> bool {
    if labels.len() != n {
        out.push(("dbscan.wrong_length".into(), format!("{} labels for {} samples", labels.len(), n)));
        return false;
    }
    let mut used: Vec<usize> = labels.iter().flatten().cloned().collect();
    used.sort();
    used.dedup();
    if used.iter().enumerate().any(|(i, &l)| i != l) {
        out.push(("dbscan.labels_not_contiguous".into(), format!("labels used are {:?}, expected 0..{} without gaps; labelling {:?}", used, used.len(), labels)));
        return false;
    }
    true
}

pub fn check_dbscan(m: &RefModel, labels: &[Option<usize>], out: &mut Vec<(String, String)>) {
    if !check_dbscan_structure(m.n, labels, out) {
        return;
    }
    let n = m.n;
    // labelled <=> core or within eps of a core point
    for p in 0..n {
        let reaching: Vec<usize> = m.nb[p].iter().cloned().filter(|&q| m.core[q]).collect();
        let expect = m.core[p] || !reaching.is_empty();
        match (expect, labels[p]) {
            (true, None) => {
                let sig = if m.core[p] { "dbscan.core_point_unlabelled" } else { "dbscan.border_point_unlabelled" };
                out.push((
                    sig.into(),
                    format!(
                        "sample {} ({}; {} samples in its open eps-ball, core points reaching it {:?}) is labelled noise; labelling {:?}",
                        p,
                        if m.core[p] { "core" } else { "border" },
                        m.nb[p].len(),
                        reaching,
                        labels
                    ),
                ));
                return;
            }
            (false, Some(l)) => {
                out.push((
                    "dbscan.noise_point_labelled".into(),
                    format!("sample {} has {} < {} samples in its open eps-ball and no core point within eps, but carries label {}; labelling {:?}", p, m.nb[p].len(), m.min_points, l, labels),
                ));
                return;
            }
            _ => {}
        }
    }
    // core points: same component <=> same label
    let cores: Vec<usize> = (0..n).filter(|&p| m.core[p]).collect();
    for (a, &p) in cores.iter().enumerate() {
        for &q in &cores[a + 1..] {
            let same_comp = m.comp[p] == m.comp[q];
            let same_label = labels[p] == labels[q];
            if same_comp && !same_label {
                let direct = m.nb[p].contains(&q);
                out.push((
                    "dbscan.core_component_split".into(),
                    format!(
                        "core points {} and {} are density-connected ({}) but carry labels {:?} and {:?}; labelling {:?}",
                        p,
                        q,
                        if direct { "within eps of each other" } else { "through a chain of core points" },
                        labels[p],
                        labels[q],
                        labels
                    ),
                ));
                return;
            }
            if !same_comp && same_label {
                out.push((
                    "dbscan.core_components_merged".into(),
                    format!("core points {} and {} lie in different density-connected components but both carry label {:?}; labelling {:?}", p, q, labels[p], labels)));
                return;
            }
        }
    }
    // border points carry the label of a core point that reaches them
    for p in 0..n {
        if m.core[p] || labels[p].is_none() {
            continue;
        }
        let ok: Vec<Option<usize>> = m.nb[p].iter().filter(|&&q| m.core[q]).map(|&q| labels[q]).collect();
        if !ok.contains(&labels[p]) {
            out.push((
                "dbscan.border_label_not_from_reaching_core".into(),
                format!("border sample {} carries label {:?} but the core points within eps of it carry {:?}; labelling {:?}", p, labels[p], ok, labels),
            ));
            return;
        }
    }
    // number of labels == number of components (consequence of the above; cheap to assert)
    let c = labels.iter().flatten().max().map_or(0, |&l| l + 1);
    if c != m.ncomp {
        out.push(("dbscan.wrong_cluster_count".into(), format!("{} labels used but {} density-connected components of core points; labelling {:?}", c, m.ncomp, labels)));
    }
}

/// One OPTICS sample as observed: (index, core distance, reachability distance).
pub type OSample = (usize, Option<f64>, Option<f64>);

pub fn check_optics_structure(n: usize, obs: &[OSample], out: &mut Vec<(String, String)>) -> bool {
    let mut seen = vec![0usize; n];
    let mut bad = obs.len() != n;
    for s in obs {
        if s.0 >= n {
            bad = true;
        } else {
            seen[s.0] += 1;
        }
    }
    if bad || seen.iter().any(|&c| c != 1) {
        let order: Vec<usize> = obs.iter().map(|s| s.0).collect();
        out.push(("optics.ordering_not_a_permutation".into(), format!("the ordering {:?} does not list each of the {} samples exactly once", order, n)));
        return false;
    }
    true
}

pub struct OpticsVerdict {
    /// the run showed the closed-form "k-th neighbour in index order" core distance
    pub unsorted_core_distance: bool,
}

pub fn check_optics(m: &RefModel, dist: &[Vec<f64>], obs: &[OSample], rel: f64, scale: f64, out: &mut Vec<(String, String)>) -> OpticsVerdict {
    let mut verdict = OpticsVerdict { unsorted_core_distance: false };
    if !check_optics_structure(m.n, obs, out) {
        return verdict;
    }
    let n = m.n;
    let abs = rel * scale;
    let eq = |a: f64, b: f64| close(a, b, rel, abs);
    let mut pos = vec![0usize; n];
    let mut scd: Vec<Option<f64>> = vec![None; n];
    let mut sr: Vec<Option<f64>> = vec![None; n];
    for (k, s) in obs.iter().enumerate() {
        pos[s.0] = k;
        scd[s.0] = s.1;
        sr[s.0] = s.2;
    }
    let order: Vec<usize> = obs.iter().map(|s| s.0).collect();
    let mut cd_wrong = vec![false; n];
    // ---- core distances ----
    let mut reported_core = false;
    for p in 0..n {
        let (sig, what): (String, String) = match (m.cd[p], scd[p]) {
            (None, None) => continue,
            (Some(t), Some(o)) if eq(t, o) => continue,
            (Some(t), Some(o)) => {
                // closed form of the known defect: the neighbour list is taken in index order
                let alt = m.nb[p].get(m.min_points - 1).map(|&q| dist[p][q]);
                if alt.map_or(false, |a| eq(a, o)) {
                    verdict.unsorted_core_distance = true;
                    (
                        "optics.core_distance.kth_neighbour_in_index_order".into(),
                        format!(
                            "sample {}: core distance {} but the distance to its {}-th nearest sample (itself included) is {}; {} is the distance to the {}-th entry {} of its eps-neighbourhood {:?} taken in index order",
                            p, o, m.min_points, t, o, m.min_points, m.nb[p][m.min_points - 1], m.nb[p]
                        ),
                    )
                } else {
                    ("optics.core_distance.wrong_value".into(), format!("sample {}: core distance {} but the distance to its {}-th nearest sample (itself included) is {}", p, o, m.min_points, t))
                }
            }
            (Some(t), None) => (
                "optics.core_distance.missing".into(),
                format!("sample {}: core distance undefined but its {}-th nearest sample (itself included) lies at {} < tolerance {}", p, m.min_points, t, m.eps),
            ),
            (None, Some(o)) => (
                "optics.core_distance.defined_without_enough_neighbours".into(),
                format!("sample {}: core distance {} reported but only {} samples lie inside the open ball of tolerance {} (min_points {})", p, o, m.nb[p].len(), m.eps, m.min_points),
            ),
        };
        cd_wrong[p] = true;
        if !reported_core {
            out.push((sig, format!("{}; ordering {:?}", what, order)));
            reported_core = true;
        }
    }
    // ---- reachability distances ----
    for (k, s) in obs.iter().enumerate() {
        let p = s.0;
        let Some(x) = s.2 else { continue };
        let explains = |o: usize, c: f64| eq(c.max(dist[o][p]), x);
        let ok = m.nb[p].iter().any(|&o| pos[o] <= k && m.cd[o].map_or(false, |c| explains(o, c)));
        if ok {
            continue;
        }
        // consequence of a wrong core distance reported in the same run
        let follows = m.nb[p].iter().find(|&&o| cd_wrong[o] && scd[o].map_or(false, |c| explains(o, c)));
        // the only explaining core point is the START point of the sample's batch (the lowest-index
        // sample not yet listed when the batch began), which the subject lists later than its seeds
        let start = batch_start_of(m, &order, k);
        let later = start.filter(|&o| pos[o] > k && m.nb[p].contains(&o) && m.cd[o].map_or(false, |c| explains(o, c)));
        let (sig, what) = if let Some(&o) = follows {
            (
                "optics.reachability.follows_wrong_core_distance",
                format!("sample {} (position {}): reachability {} = max(reported core distance {:?} of sample {}, distance {}), and that core distance is itself wrong (true {:?})", p, k, x, scd[o], o, dist[o][p], m.cd[o]),
            )
        } else if let Some(o) = later {
            (
                "optics.reachability.start_point_listed_after_its_seeds",
                format!(
                    "sample {} (position {}): reachability {} = max(core distance {:?} of sample {}, distance {}), but sample {} - the point the expansion started from - is listed later (position {}): no core point listed no later than sample {} explains the value",
                    p, k, x, m.cd[o], o, dist[o][p], o, pos[o], p
                ),
            )
        } else {
            (
                "optics.reachability.wrong_value",
                format!("sample {} (position {}): reachability {} is not max(core distance of o, distance to o) for any core point o within the tolerance listed no later", p, k, x),
            )
        };
        let detail: Vec<String> = obs.iter().map(|s| format!("{}:cd={:?},r={:?}", s.0, s.1, s.2)).collect();
        out.push((sig.into(), format!("{}; ordering [{}]", what, detail.join(" "))));
        break;
    }
    verdict
}

/// Start point of the batch that contains position `k` of the observed ordering, reconstructed from
/// the reference: a batch starts with the lowest-index sample not listed so far; if that sample is
/// not core the batch is the sample alone, otherwise it is everything density-reachable from it
/// among the samples not listed so far (non-core samples are reached but do not expand). `None`
/// when the observed ordering does not decompose that way.
fn batch_start_of(m: &RefModel, order: &[usize], k: usize) -> Option<usize> {
    let n = m.n;
    let mut listed = vec![false; n];
    let mut j = 0;
    while j < n {
        let s = (0..n).find(|&i| !listed[i])?;
        let mut members = vec![false; n];
        members[s] = true;
        let mut size = 1;
        if m.cd[s].is_some() {
            let mut stack = vec![s];
            while let Some(c) = stack.pop() {
                for &q in &m.nb[c] {
                    if !listed[q] && !members[q] {
                        members[q] = true;
                        size += 1;
                        if m.cd[q].is_some() {
                            stack.push(q);
                        }
                    }
                }
            }
        }
        if j + size > n || order[j..j + size].iter().any(|&i| !members[i]) {
            return None;
        }
        if k < j + size {
            return Some(s);
        }
        for &i in &order[j..j + size] {
            listed[i] = true;
        }
        j += size;
    }
    None
}
