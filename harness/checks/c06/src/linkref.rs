//! Reference model of agglomerative clustering: the textbook ("primitive") algorithm with the
//! Lance-Williams update formulas, in plain f64, exploring EVERY tie-break (all pairs whose
//! dissimilarity is within the tie tolerance of the current minimum are followed), so that the
//! result is the SET of partitions an agglomerative clustering may legitimately return.
//! No linfa / kodama code in here.
//!
//! Convention (the one of SciPy / fastcluster / kodama, which the rustdoc of linfa-hierarchical
//! points to): Ward, Centroid and Median work on SQUARED input dissimilarities and report the
//! square root of the updated value as the merge height; the other methods work on the input
//! dissimilarities directly.

use std::collections::{BTreeSet, HashSet};

#[derive(Clone, Copy, Debug, PartialEq, Eq)]
pub enum Link {
    Single,
    Complete,
    Average,
    Weighted,
    Ward,
    Centroid,
    Median,
}

pub const LINKS: [Link; 7] = [Link::Single, Link::Complete, Link::Average, Link::Weighted, Link::Ward, Link::Centroid, Link::Median];

impl Link {
    pub fn name(&self) -> &'static str {
        match self {
            Link::Single => "single",
            Link::Complete => "complete",
            Link::Average => "average",
            Link::Weighted => "weighted",
            Link::Ward => "ward",
            Link::Centroid => "centroid",
            Link::Median => "median",
        }
    }
    pub fn on_squares(&self) -> bool {
        matches!(self, Link::Ward | Link::Centroid | Link::Median)
    }
    /// merge heights never decrease along the agglomeration (reducible linkages)
    pub fn monotone(&self) -> bool {
        !matches!(self, Link::Centroid | Link::Median)
    }
    /// merge heights are copies of input entries (min / max only, no arithmetic)
    pub fn heights_are_input_entries(&self) -> bool {
        matches!(self, Link::Single | Link::Complete)
    }
    /// the cluster-to-cluster dissimilarity is a function of the two member sets only
    fn history_free(&self) -> bool {
        matches!(self, Link::Single | Link::Complete | Link::Average | Link::Ward)
    }
}

fn lw(link: Link, dax: f64, dbx: f64, dab: f64, na: f64, nb: f64, nx: f64) -> f64 {
    match link {
        Link::Single => dax.min(dbx),
        Link::Complete => dax.max(dbx),
        Link::Average => (na * dax + nb * dbx) / (na + nb),
        Link::Weighted => 0.5 * (dax + dbx),
        Link::Ward => ((nx + na) * dax + (nx + nb) * dbx - nx * dab) / (na + nb + nx),
        Link::Centroid => (na * dax + nb * dbx) / (na + nb) - na * nb * dab / ((na + nb) * (na + nb)),
        Link::Median => 0.5 * (dax + dbx) - 0.25 * dab,
    }
}

#[derive(Clone)]
struct St {
    members: Vec<Vec<usize>>,
    d: Vec<Vec<f64>>, // working space (squared for on_squares methods)
}

fn init(link: Link, dis: &[Vec<f64>]) -> St {
    let n = dis.len();
    let d = (0..n)
        .map(|i| (0..n).map(|j| if link.on_squares() { dis[i][j] * dis[i][j] } else { dis[i][j] }).collect())
        .collect();
    St { members: (0..n).map(|i| vec![i]).collect(), d }
}

fn merge(link: Link, st: &St, a: usize, b: usize) -> St {
    let m = st.members.len();
    let keep: Vec<usize> = (0..m).filter(|&x| x != a && x != b).collect();
    let (na, nb) = (st.members[a].len() as f64, st.members[b].len() as f64);
    let mut members: Vec<Vec<usize>> = keep.iter().map(|&x| st.members[x].clone()).collect();
    let mut ab = st.members[a].clone();
    ab.extend(st.members[b].iter().cloned());
    ab.sort();
    members.push(ab);
    let k = keep.len();
    let mut d = vec![vec![0.0; k + 1]; k + 1];
    for (i, &x) in keep.iter().enumerate() {
        for (j, &y) in keep.iter().enumerate() {
            d[i][j] = st.d[x][y];
        }
        let v = lw(link, st.d[a][x], st.d[b][x], st.d[a][b], na, nb, st.members[x].len() as f64);
        d[i][k] = v;
        d[k][i] = v;
    }
    St { members, d }
}

pub fn canon_partition(n: usize, members: &[Vec<usize>]) -> Vec<usize> {
    let mut lab = vec![usize::MAX; n];
    for (c, ms) in members.iter().enumerate() {
        for &m in ms {
            lab[m] = c;
        }
    }
    canon_labels(&lab)
}

/// Relabel by order of first occurrence: two labelings are the same partition iff their
/// canonical forms are equal.
pub fn canon_labels(lab: &[usize]) -> Vec<usize> {
    let mut map: Vec<(usize, usize)> = Vec::new();
    lab.iter()
        .map(|&l| {
            if let Some(&(_, c)) = map.iter().find(|(k, _)| *k == l) {
                c
            } else {
                let c = map.len();
                map.push((l, c));
                c
            }
        })
        .collect()
}

/// Same canonical form as `canon_labels`, O(n) for labels < 2n (large sets).
pub fn canon_labels_fast(lab: &[usize]) -> Vec<usize> {
    let m = lab.iter().max().map_or(0, |m| m + 1);
    let mut map = vec![usize::MAX; m];
    let mut next = 0;
    lab.iter()
        .map(|&l| {
            if map[l] == usize::MAX {
                map[l] = next;
                next += 1;
            }
            map[l]
        })
        .collect()
}

#[derive(Clone, Copy, Debug)]
pub enum Stop {
    /// merge until at most this many clusters are left
    Count(usize),
    /// perform every merge whose height is < t (`inclusive` = false) or <= t (`inclusive` = true)
    Below { t: f64, inclusive: bool },
}

#[derive(Default, Debug, Clone)]
pub struct Outcome {
    /// every partition some tie-breaking of the textbook algorithm ends with
    pub partitions: BTreeSet<Vec<usize>>,
    /// a merge height that is the result of floating-point arithmetic lies within the rounding
    /// margin of the threshold: either decision is acceptable
    pub near_threshold: bool,
    /// a Lance-Williams value became negative / NaN (Centroid / Median on non-Euclidean input)
    pub degenerate: bool,
    /// a merge height lower than the previous one was met (Centroid / Median inversions)
    pub inversion: bool,
    pub overflow: bool,
    pub nodes: u64,
    pub tie_branchings: u64,
}

/// exploration budget per run: generous on the small sets (never reached there, see the
/// `reference_overflow` counter), tight on the large sets where floored similarities tie en masse
fn node_cap(n: usize) -> u64 {
    if n <= 8 {
        400_000
    } else {
        150
    }
}

struct Ex {
    tie_rel: f64,
    link: Link,
    stop: Stop,
    n: usize,
    out: Outcome,
    visited: HashSet<Vec<Vec<usize>>>,
}

impl Ex {
    fn emit(&mut self, st: &St) {
        self.out.partitions.insert(canon_partition(self.n, &st.members));
    }

    fn go(&mut self, st: &St, prev_h: f64) {
        self.out.nodes += 1;
        if self.out.nodes > node_cap(self.n) {
            self.out.overflow = true;
            return;
        }
        if self.link.history_free() {
            let mut key = st.members.clone();
            key.sort();
            if !self.visited.insert(key) {
                return;
            }
        }
        let m = st.members.len();
        if m <= 1 {
            self.emit(st);
            return;
        }
        if let Stop::Count(c) = self.stop {
            if m <= c {
                self.emit(st);
                return;
            }
        }
        let mut vmin = f64::INFINITY;
        for a in 0..m {
            for b in a + 1..m {
                let v = st.d[a][b];
                if v.is_nan() {
                    self.out.degenerate = true;
                    return;
                }
                if v < vmin {
                    vmin = v;
                }
            }
        }
        if vmin < 0.0 && self.link.on_squares() {
            // a squared dissimilarity went negative: the height sqrt(v) does not exist
            self.out.degenerate = true;
            return;
        }
        let tie_rel = self.tie_rel;
        let tie = tie_rel * vmin.abs().max(1e-300);
        let sq = self.link.on_squares();
        let height = move |v: f64| if sq { v.sqrt() } else { v };
        let hmin = height(vmin);
        if hmin < prev_h - tie_rel * prev_h.abs().max(1.0) {
            self.out.inversion = true;
        }
        let mut cands: Vec<(usize, usize)> = Vec::new();
        for a in 0..m {
            for b in a + 1..m {
                if st.d[a][b] <= vmin + tie {
                    cands.push((a, b));
                }
            }
        }
        let mut followed = 0;
        let mut stopped_here = false;
        for (a, b) in cands {
            let h = height(st.d[a][b]);
            if let Stop::Below { t, inclusive } = self.stop {
                // heights that are bit-identical to what any correct implementation computes:
                // entries of the input (Single / Complete always; any merge of two singletons)
                let exact = self.link.heights_are_input_entries() || (st.members[a].len() == 1 && st.members[b].len() == 1);
                if !exact && (h - t).abs() <= tie_rel * t.abs().max(1.0) {
                    self.out.near_threshold = true;
                }
                let below = if inclusive { h <= t } else { h < t };
                if !below {
                    stopped_here = true;
                    if (h - t).abs() <= tie_rel * t.abs().max(1.0) && !self.link.heights_are_input_entries() {
                        // the agglomeration stops at a height equal to the threshold; merges that
                        // would follow at the same (real-arithmetic) height are computed with
                        // rounding and may land just below the threshold in an implementation
                        let nxt = merge(self.link, st, a, b);
                        self.probe(&nxt, t);
                    }
                    continue;
                }
            }
            followed += 1;
            let nxt = merge(self.link, st, a, b);
            self.go(&nxt, h);
        }
        if followed > 1 {
            self.out.tie_branchings += 1;
        }
        if followed == 0 && stopped_here {
            self.emit(st);
        }
    }
}

impl Ex {
    /// Looks past a merge at height == threshold for computed (non-input) heights within the
    /// rounding margin of the threshold; sets `near_threshold` when there is one.
    fn probe(&mut self, st: &St, t: f64) {
        self.out.nodes += 1;
        if self.out.near_threshold || self.out.nodes > node_cap(self.n) {
            if self.out.nodes > node_cap(self.n) {
                self.out.overflow = true;
            }
            return;
        }
        let m = st.members.len();
        if m <= 1 {
            return;
        }
        let sq = self.link.on_squares();
        let height = move |v: f64| if sq { v.sqrt() } else { v };
        let margin = self.tie_rel * t.abs().max(1.0);
        for a in 0..m {
            for b in a + 1..m {
                let h = height(st.d[a][b]);
                if (h - t).abs() <= margin {
                    let exact = st.members[a].len() == 1 && st.members[b].len() == 1;
                    if !exact {
                        self.out.near_threshold = true;
                        return;
                    }
                    let nxt = merge(self.link, st, a, b);
                    self.probe(&nxt, t);
                    if self.out.near_threshold {
                        return;
                    }
                }
            }
        }
    }
}

/// All partitions the agglomeration of `dis` (symmetric, zero diagonal) may end with.
pub fn admissible(link: Link, dis: &[Vec<f64>], stop: Stop, tie_rel: f64) -> Outcome {
    let mut ex = Ex { tie_rel, link, stop, n: dis.len(), out: Outcome::default(), visited: HashSet::new() };
    let st = init(link, dis);
    ex.go(&st, f64::NEG_INFINITY);
    ex.out
}

/// Merge heights along the first-choice branch of the full agglomeration (used only to place
/// thresholds at / between linkage dissimilarities; not an oracle).
pub fn canonical_heights(link: Link, dis: &[Vec<f64>]) -> Vec<f64> {
    let mut st = init(link, dis);
    let mut hs = Vec::new();
    while st.members.len() > 1 {
        let m = st.members.len();
        let mut best = (0, 1);
        for a in 0..m {
            for b in a + 1..m {
                if st.d[a][b] < st.d[best.0][best.1] {
                    best = (a, b);
                }
            }
        }
        let v = st.d[best.0][best.1];
        let h = if link.on_squares() { v.sqrt() } else { v };
        if h.is_finite() {
            hs.push(h);
        }
        st = merge(link, &st, best.0, best.1);
    }
    hs
}

/// Connected components of the graph {i ~ j : dis[i][j] < t}, canonical labels.
pub fn components_below(dis: &[Vec<f64>], t: f64) -> Vec<usize> {
    let n = dis.len();
    let mut parent: Vec<usize> = (0..n).collect();
    fn find(p: &mut Vec<usize>, x: usize) -> usize {
        let mut r = x;
        while p[r] != r {
            r = p[r];
        }
        let mut c = x;
        while p[c] != r {
            let nx = p[c];
            p[c] = r;
            c = nx;
        }
        r
    }
    for i in 0..n {
        for j in i + 1..n {
            if dis[i][j] < t {
                let (a, b) = (find(&mut parent, i), find(&mut parent, j));
                if a != b {
                    parent[a] = b;
                }
            }
        }
    }
    let lab: Vec<usize> = (0..n).map(|i| find(&mut parent, i)).collect();
    canon_labels(&lab)
}
