//! C06 — kernel matrices hold the kernel function; hierarchical clustering partitions.
//!
//! Exhaustive sweep (DESIGN.md §4 C06): every point set of the enumerated families x every kernel
//! method of the grid x {f64, f32} x Dense and Sparse(k) for every 0 < k < n with each of the three
//! neighbour indices x owned kernel and view, compared with a reference kernel function and a
//! brute-force neighbour ranking; and, for the kernels so built (quick: f64 Gaussian, Linear,
//! Polynomial(1,2); thorough: all, f64 and f32), all 7 linkage methods x every cluster count
//! 1..n+1 x thresholds exactly at / midway between the linkage dissimilarities, compared with a
//! tie-exploring textbook agglomeration (`linkref`). Large point sets (n = 20..49) exercise the
//! tree indices above their leaf size.

mod linkref;

use linfa::traits::Transformer;
use linfa::Float;
use linfa_hierarchical::{HierarchicalCluster, Method};
use linfa_kernel::{Kernel, KernelInner, KernelMethod, KernelType};
use linfa_nn::CommonNearestNeighbour;
use linkref::{Link, Stop};
use lvmc_core::enumerate as en;
use lvmc_core::refmath;
use lvmc_core::{close, guarded, json, par_sweep, Ctx, Level, Value, Violation};
use ndarray::{s, Array2, ArrayView2, ShapeBuilder};
use serde::{Deserialize, Serialize};
use std::collections::BTreeMap;

#[derive(Clone, Debug, Serialize, Deserialize)]
struct Case {
    family: String,
    points: Vec<Vec<f64>>,
    dim: usize,
    float: String,  // "f64" | "f32"
    kernel: String, // "linear" | "gaussian" | "poly"
    p1: f64,        // gaussian: eps; poly: constant
    p2: f64,        // poly: degree (integer valued)
    /// run the hierarchical-clustering sweep on the kernels of this case
    cluster: bool,
    /// also build every kernel from the same records in four other memory layouts, and feed
    /// `dot` right-hand sides / dense inner matrices in other layouts
    #[serde(default)]
    layouts: bool,
    /// also build the kernel parameters / clustering parameters through every other order of
    /// setter calls (and with overwritten values) that ends in the same logical parameter set
    #[serde(default)]
    builders: bool,
    /// restrict Sparse(k) to these k (None = every 0<k<n); used by the n = 1025 family
    #[serde(default)]
    ks: Option<Vec<usize>>,
}

const KINDS: [(&str, CommonNearestNeighbour); 3] = [
    ("linear", CommonNearestNeighbour::LinearSearch),
    ("kdtree", CommonNearestNeighbour::KdTree),
    ("balltree", CommonNearestNeighbour::BallTree),
];

type Counters = BTreeMap<&'static str, u64>;
fn bump(c: &mut Counters, k: &'static str, n: u64) {
    *c.entry(k).or_insert(0) += n;
}

fn to_f64<F: Float>(x: F) -> f64 {
    x.to_f64().unwrap()
}

/// Reference kernel function (plain f64; integer powers by repeated multiplication).
fn kref(kernel: &str, p1: f64, p2: f64, a: &[f64], b: &[f64]) -> f64 {
    match kernel {
        "linear" => refmath::dot(a, b),
        "gaussian" => (-refmath::sqdist(a, b) / p1).exp(),
        "poly" => {
            let base = refmath::dot(a, b) + p1;
            if p2.fract() == 0.0 && p2 >= 0.0 {
                let mut r = 1.0;
                for _ in 0..(p2 as usize) {
                    r *= base;
                }
                r
            } else {
                // real power of a positive base (the caller filters base <= 0 as out of domain)
                (p2 * base.ln()).exp()
            }
        }
        _ => panic!("unknown kernel"),
    }
}

struct Tol {
    rel: f64,     // kernel values / sums / products
    psd: f64,     // most negative eigenvalue accepted
    rank_rel: f64, // neighbour-ranking tie margin, relative to the largest squared distance
}

/// Dense image of the kernel's inner matrix read from the raw storage (no `Inner` method used).
struct Image {
    m: Vec<Vec<f64>>,
    stored: Vec<Vec<bool>>,
    problem: Option<String>,
}

fn image<F: Float>(k: &Kernel<F>) -> Image {
    match &k.inner {
        KernelInner::Dense(a) => {
            let (r, c) = a.dim();
            let m = (0..r).map(|i| (0..c).map(|j| to_f64(a[(i, j)])).collect()).collect();
            let problem = if r != c { Some(format!("dense inner is {}x{}", r, c)) } else { None };
            Image { m, stored: vec![vec![true; c]; r], problem }
        }
        KernelInner::Sparse(cs) => {
            let (r, c) = (cs.rows(), cs.cols());
            let mut m = vec![vec![0.0; c]; r];
            let mut stored = vec![vec![false; c]; r];
            let mut problem = None;
            let ip: Vec<usize> = cs.indptr().to_proper().to_vec();
            let ind = cs.indices();
            let dat = cs.data();
            let outer = if cs.is_csr() { r } else { c };
            if r != c {
                problem = Some(format!("sparse inner is {}x{}", r, c));
            }
            if ip.len() != outer + 1 || ind.len() != dat.len() || ip.last().cloned().unwrap_or(0) != ind.len() {
                problem = Some(format!("inconsistent CSR arrays: indptr {:?}, {} indices, {} values", ip, ind.len(), dat.len()));
                return Image { m, stored, problem };
            }
            for o in 0..outer {
                let mut last: Option<usize> = None;
                for p in ip[o]..ip[o + 1] {
                    let inner = ind[p];
                    if inner >= if cs.is_csr() { c } else { r } {
                        problem = Some(format!("index {} out of range in outer {}", inner, o));
                        continue;
                    }
                    if let Some(l) = last {
                        if inner <= l {
                            problem = Some(format!("indices of outer {} not strictly increasing", o));
                        }
                    }
                    last = Some(inner);
                    let (i, j) = if cs.is_csr() { (o, inner) } else { (inner, o) };
                    m[i][j] = to_f64(dat[p]);
                    stored[i][j] = true;
                }
            }
            Image { m, stored, problem }
        }
    }
}

/// The six views a kernel reports about its matrix, as plain vectors.
#[derive(PartialEq, Debug)]
struct Views {
    size: usize,
    sum: Vec<f64>,
    columns: Vec<Vec<f64>>,
    diagonal: Vec<f64>,
    upper: Vec<f64>,
    dots: Vec<Vec<Vec<f64>>>,
}

fn rhs_menu(n: usize) -> Vec<Vec<Vec<f64>>> {
    vec![
        (0..n).map(|i| (0..n).map(|j| if i == j { 1.0 } else { 0.0 }).collect()).collect(), // identity
        (0..n).map(|i| vec![(i as f64 + 1.0) * 0.75, 2.0 - (i as f64) * (i as f64) * 0.5]).collect(), // n x 2
        (0..n).map(|i| vec![if i % 2 == 0 { 1.0 } else { -1.5 }]).collect(), // n x 1
    ]
}

macro_rules! views_of {
    ($k:expr, $F:ty, $n:expr) => {{
        let k = &$k;
        let size = k.size();
        let sum: Vec<f64> = k.sum().iter().map(|&x| to_f64(x)).collect();
        let columns: Vec<Vec<f64>> = (0..size.min($n)).map(|i| k.column(i).iter().map(|&x| to_f64(x)).collect()).collect();
        let diagonal: Vec<f64> = k.diagonal().iter().map(|&x| to_f64(x)).collect();
        let upper: Vec<f64> = k.to_upper_triangle().iter().map(|&x| to_f64(x)).collect();
        let mut dots = Vec::new();
        for rhs in rhs_menu($n) {
            let cols = rhs.first().map_or(1, |r| r.len());
            let r: Array2<$F> = Array2::from_shape_fn(($n, cols), |(i, j)| <$F as Float>::cast(rhs[i][j]));
            let p = k.dot(&r.view());
            let (pr, pc) = p.dim();
            dots.push((0..pr).map(|i| (0..pc).map(|j| to_f64(p[(i, j)])).collect::<Vec<f64>>()).collect::<Vec<_>>());
        }
        Views { size, sum, columns, diagonal, upper, dots }
    }};
}

fn check_views(who: &str, v: &Views, img: &Image, n: usize, tol: &Tol, f32_rhs: bool, viols: &mut Vec<Violation>, cj: &dyn Fn(Value) -> Value, at: &Value) {
    let mut push = |op: &str, what: String| {
        let mut a = at.clone();
        a.as_object_mut().unwrap().insert("op".into(), json!(op));
        a.as_object_mut().unwrap().insert("form".into(), json!(who));
        viols.push(Violation::new(format!("{}.{}.mismatch", who, op), what, cj(a)));
    };
    let m = &img.m;
    if v.size != n {
        push("size", format!("size() = {} for a kernel of {} records", v.size, n));
        return;
    }
    let scale = m.iter().flatten().fold(0.0f64, |s, x| s.max(x.abs())).max(1e-300);
    // row sums
    let want: Vec<f64> = m.iter().map(|r| r.iter().sum()).collect();
    if v.sum.len() != n || v.sum.iter().zip(&want).any(|(a, b)| !close(*a, *b, tol.rel, tol.rel * scale * n as f64)) {
        push("sum", format!("sum() = {:?} but the row sums of the stored matrix are {:?}", v.sum, want));
    }
    // columns (copies: exact)
    for i in 0..n {
        let want: Vec<f64> = (0..n).map(|j| m[j][i]).collect();
        if v.columns[i] != want {
            push("column", format!("column({}) = {:?} but the stored matrix has {:?}", i, v.columns[i], want));
            break;
        }
    }
    let want: Vec<f64> = (0..n).map(|i| m[i][i]).collect();
    if v.diagonal != want {
        push("diagonal", format!("diagonal() = {:?} but the stored matrix has {:?}", v.diagonal, want));
    }
    let mut want = Vec::new();
    for i in 0..n {
        for j in i + 1..n {
            want.push(m[i][j]);
        }
    }
    if v.upper != want {
        push("upper_triangle", format!("to_upper_triangle() = {:?} but the stored matrix has {:?} (row-major, above the diagonal)", v.upper, want));
    }
    for (r, rhs) in rhs_menu(n).iter().enumerate() {
        let rhs: Vec<Vec<f64>> = if f32_rhs { rhs.iter().map(|row| row.iter().map(|&x| x as f32 as f64).collect()).collect() } else { rhs.clone() };
        let want = if r == 0 { m.clone() } else { refmath::matmul(m, &rhs) }; // rhs #0 is the identity
        let rscale = rhs.iter().flatten().fold(0.0f64, |s, x| s.max(x.abs()));
        let got = &v.dots[r];
        let ok = got.len() == want.len()
            && got.iter().zip(&want).all(|(a, b)| a.len() == b.len() && a.iter().zip(b).all(|(x, y)| close(*x, *y, tol.rel, tol.rel * scale * rscale * n as f64)));
        if !ok {
            push("dot", format!("dot(rhs #{}) = {:?} but stored matrix x rhs = {:?}", r, got, want));
            break;
        }
    }
}

fn run_case(case: &Case, viols: &mut Vec<Violation>) -> Counters {
    match case.float.as_str() {
        "f64" => run_typed::<f64>(case, viols),
        "f32" => run_typed::<f32>(case, viols),
        _ => panic!("bad float"),
    }
}

fn method_of<F: Float>(case: &Case) -> KernelMethod<F> {
    match case.kernel.as_str() {
        "linear" => KernelMethod::Linear,
        "gaussian" => KernelMethod::Gaussian(F::cast(case.p1)),
        "poly" => KernelMethod::Polynomial(F::cast(case.p1), F::cast(case.p2)),
        _ => panic!("bad kernel"),
    }
}

fn run_typed<F: Float>(case: &Case, viols: &mut Vec<Violation>) -> Counters {
    let mut cnt = Counters::new();
    let n = case.points.len();
    let d = case.dim;
    let is32 = case.float == "f32";
    let tol = if is32 { Tol { rel: 3e-5, psd: -1e-4, rank_rel: 1e-5 } } else { Tol { rel: 1e-12, psd: -1e-10, rank_rel: 1e-12 } };
    let x: Array2<F> = Array2::from_shape_fn((n, d), |(i, j)| F::cast(case.points[i][j]));
    let pts: Vec<Vec<f64>> = (0..n).map(|i| (0..d).map(|j| to_f64(x[(i, j)])).collect()).collect();
    let p1 = to_f64(F::cast(case.p1));
    let p2 = to_f64(F::cast(case.p2));
    let cj = |at: Value| -> Value {
        let mut v = serde_json::to_value(case).unwrap();
        v.as_object_mut().unwrap().insert("at".into(), at);
        v
    };
    // domain of a fractional polynomial degree: every base <x,y>+c clearly positive (a real power
    // of a negative base does not exist, and near 0 the power is ill-conditioned)
    if case.kernel == "poly" && p2.fract() != 0.0 {
        let minbase = (0..n).flat_map(|i| (0..n).map(move |j| (i, j))).map(|(i, j)| refmath::dot(&pts[i], &pts[j]) + p1).fold(f64::INFINITY, f64::min);
        if minbase < 0.01 {
            bump(&mut cnt, "out_of_domain", 1);
            return cnt;
        }
        bump(&mut cnt, "fractional_degree_cases", 1);
    }
    let kr: Vec<Vec<f64>> = (0..n).map(|i| (0..n).map(|j| kref(&case.kernel, p1, p2, &pts[i], &pts[j])).collect()).collect();
    let d2: Vec<Vec<f64>> = (0..n).map(|i| (0..n).map(|j| refmath::sqdist(&pts[i], &pts[j])).collect()).collect();
    let d2max = d2.iter().flatten().cloned().fold(0.0, f64::max).max(1e-300);
    let rtol = tol.rank_rel * d2max;
    let kscale = kr.iter().flatten().fold(0.0f64, |s, v| s.max(v.abs())).max(1e-300);

    // kernel kinds: dense, and sparse(k) for every 0<k<n with each neighbour index
    let mut kinds: Vec<(KernelType, &str, CommonNearestNeighbour)> = vec![(KernelType::Dense, "-", CommonNearestNeighbour::KdTree)];
    for k in 1..n {
        if case.ks.as_ref().map_or(false, |ks| !ks.contains(&k)) {
            continue;
        }
        for (name, nn) in KINDS.iter() {
            kinds.push((KernelType::Sparse(k), name, nn.clone()));
        }
    }
    // per point: squared distances to the others, ascending (neighbour ranking by binary search)
    let sorted_d2: Vec<Vec<f64>> = (0..n)
        .map(|i| {
            let mut r: Vec<f64> = (0..n).filter(|&l| l != i).map(|l| d2[i][l]).collect();
            r.sort_by(|a, b| a.partial_cmp(b).unwrap());
            r
        })
        .collect();
    // the same records in other memory layouts (filler rows of the strided parent are NaN poison)
    let x_f: Array2<F> = {
        let mut a = Array2::zeros((n, d).f());
        a.assign(&x);
        a
    };
    let x_feature_major: Array2<F> = Array2::from_shape_fn((d, n), |(j, i)| x[(i, j)]);
    let x_rev: Array2<F> = Array2::from_shape_fn((n, d), |(i, j)| x[(n - 1 - i, j)]);
    let x_big: Array2<F> = Array2::from_shape_fn((2 * n, d), |(i, j)| if i % 2 == 0 { x[(i / 2, j)] } else { F::nan() });
    let x_frev: Array2<F> = Array2::from_shape_fn((n, d), |(i, j)| x[(i, d - 1 - j)]);
    let alt_layouts: Vec<(&str, ArrayView2<F>)> = vec![
        ("column_major_owned", x_f.view()),
        ("transposed_view_of_feature_major", x_feature_major.t()),
        ("reversed_view_of_reversed_copy", x_rev.slice(s![..;-1, ..])),
        ("every_second_row_of_poisoned_parent", x_big.slice(s![..;2, ..])),
        // rows with stride -1: contiguous in memory order, not in logical order
        ("reversed_feature_axis_view_of_feature_reversed_copy", x_frev.slice(s![.., ..;-1])),
    ];
    let mut clustered: Vec<Vec<Vec<f64>>> = Vec::new(); // matrices already handed to the clustering sweep
    for (kind, nn_name, nn) in kinds {
        let (kname, kk) = match kind {
            KernelType::Dense => ("dense", 0usize),
            KernelType::Sparse(k) => ("sparse", k),
        };
        let at = json!({"kind": kname, "k": kk, "nn": nn_name});
        let params = Kernel::<F>::params_with_nn(nn.clone()).kind(kind.clone()).method(method_of::<F>(case));
        bump(&mut cnt, "evals", 1);
        if case.family.starts_with("lattice3x3_affine") {
            bump(&mut cnt, "kernels_on_offset_data", 1);
        }
        let kernel: Kernel<F> = match guarded(|| params.transform(x.view())) {
            Ok(k) => k,
            Err(p) => {
                viols.push(Violation::new(format!("{}.build.panic", kname), format!("building the kernel (n={}, k={}) panicked: {}", n, kk, p), cj(at)));
                continue;
            }
        };
        let img = image(&kernel);
        if let Some(p) = &img.problem {
            viols.push(Violation::new(format!("{}.structure.invalid", kname), p.clone(), cj(at.clone())));
            continue;
        }
        if img.m.len() != n {
            viols.push(Violation::new(format!("{}.structure.wrong_shape", kname), format!("inner matrix has {} rows for {} records", img.m.len(), n), cj(at.clone())));
            continue;
        }
        // ---- stored values == kernel function; symmetric; Gaussian: unit diagonal, PSD ----
        let mut bad_value = false;
        'outer: for i in 0..n {
            for j in 0..n {
                // Gaussian values span many magnitudes: purely relative; Linear / Polynomial values are
                // sums of products (cancellation): relative to the largest entry of the matrix
                // (below the smallest normal number of the float type relative precision is lost)
                let tiny = if is32 { f32::MIN_POSITIVE as f64 } else { f64::MIN_POSITIVE };
                let abs = if case.kernel == "gaussian" { tiny } else { tol.rel * kscale };
                if img.stored[i][j] && !close(img.m[i][j], kr[i][j], tol.rel, abs) {
                    viols.push(Violation::new(
                        format!("{}.entry.wrong_value", kname),
                        format!("entry ({},{}) = {:e} but {}({:?},{:?}) = {:e}", i, j, img.m[i][j], case.kernel, pts[i], pts[j], kr[i][j]),
                        cj(at.clone()),
                    ));
                    bad_value = true;
                    break 'outer;
                }
            }
        }
        'sym: for i in 0..n {
            for j in i + 1..n {
                if img.stored[i][j] != img.stored[j][i] {
                    viols.push(Violation::new(
                        "sparse.pattern.not_symmetric",
                        format!("cell ({},{}) stored = {} but cell ({},{}) stored = {}", i, j, img.stored[i][j], j, i, img.stored[j][i]),
                        cj(at.clone()),
                    ));
                    break 'sym;
                }
                if !close(img.m[i][j], img.m[j][i], tol.rel, 0.0) {
                    viols.push(Violation::new(format!("{}.not_symmetric", kname), format!("K[{},{}] = {:e} but K[{},{}] = {:e}", i, j, img.m[i][j], j, i, img.m[j][i]), cj(at.clone())));
                    break 'sym;
                }
            }
        }
        if let Some(i) = (0..n).find(|&i| !img.stored[i][i]) {
            viols.push(Violation::new("sparse.pattern.diagonal_missing", format!("diagonal cell ({},{}) is not stored", i, i), cj(at.clone())));
        }
        if case.kernel == "gaussian" {
            if let Some(i) = (0..n).find(|&i| img.m[i][i] != 1.0) {
                viols.push(Violation::new("gaussian.diagonal_not_one", format!("K[{},{}] = {:e}", i, i, img.m[i][i]), cj(at.clone())));
            }
            if kname == "dense" && !bad_value && n > 64 {
                bump(&mut cnt, "psd_skipped_n_above_64", 1);
            }
            if kname == "dense" && !bad_value && n <= 64 {
                let sym: Vec<Vec<f64>> = (0..n).map(|i| (0..n).map(|j| 0.5 * (img.m[i][j] + img.m[j][i])).collect()).collect();
                let (vals, _) = refmath::jacobi_eig(&sym);
                bump(&mut cnt, "psd_checked", 1);
                if let Some(&l) = vals.last() {
                    if l < tol.psd {
                        viols.push(Violation::new("gaussian.not_psd", format!("smallest eigenvalue {:e} of the Gaussian kernel matrix", l), cj(at.clone())));
                    }
                }
            }
        }
        // ---- sparse pattern vs brute-force neighbour ranking ----
        let mut nontrivial = n >= 2;
        if kname == "sparse" {
            let k = kk;
            // must[i][j]: j is among the k nearest of i under every admissible tie-break;
            // may[i][j]: under at least one
            let mut lower = vec![vec![false; n]; n];
            let mut upper = vec![vec![false; n]; n];
            for i in 0..n {
                for j in 0..n {
                    if i == j {
                        lower[i][j] = true;
                        upper[i][j] = true;
                        continue;
                    }
                    // others l != i, j with d2(i,l) <= d2(i,j) + rtol (j itself is in the sorted row: -1)
                    let near_or_closer = sorted_d2[i].partition_point(|&v| v <= d2[i][j] + rtol) - 1;
                    let strictly_closer = sorted_d2[i].partition_point(|&v| v < d2[i][j] - rtol);
                    if near_or_closer < k {
                        lower[i][j] = true;
                        lower[j][i] = true;
                    }
                    if strictly_closer < k {
                        upper[i][j] = true;
                        upper[j][i] = true;
                    }
                }
            }
            let exact = lower == upper;
            bump(&mut cnt, if exact { "sparse_patterns_exact" } else { "sparse_patterns_tied_bounds_only" }, 1);
            if exact && n > 16 {
                bump(&mut cnt, "sparse_patterns_exact_on_sets_above_leaf_size", 1);
            }
            if !exact {
                bump(&mut cnt, "indeterminate", 1);
            }
            let full = img.stored.iter().flatten().all(|&b| b);
            nontrivial = exact && !lower.iter().flatten().all(|&b| b);
            if full {
                bump(&mut cnt, "sparse_patterns_full", 1);
            }
            let mut done = false;
            for i in 0..n {
                for j in 0..n {
                    if done {
                        break;
                    }
                    if lower[i][j] && !img.stored[i][j] {
                        let dir = if (0..n).filter(|&l| l != i && l != j && d2[i][l] <= d2[i][j] + rtol).count() < k { "row's own neighbour" } else { "transposed (other point's neighbour)" };
                        viols.push(Violation::new(
                            "sparse.pattern.missing_neighbour_pair",
                            format!("k={} {}: pair ({},{}) is not stored although one point is among the other's {} nearest ({}); squared distances from {}: {:?}", k, nn_name, i, j, k, dir, i, d2[i]),
                            cj(at.clone()),
                        ));
                        done = true;
                    }
                    if img.stored[i][j] && !upper[i][j] {
                        viols.push(Violation::new(
                            "sparse.pattern.extra_pair",
                            format!("k={} {}: pair ({},{}) is stored although neither point is among the other's {} nearest; squared distances from {}: {:?}, from {}: {:?}", k, nn_name, i, j, k, i, d2[i], j, d2[j]),
                            cj(at.clone()),
                        ));
                        done = true;
                    }
                }
            }
            for i in 0..n {
                let off = (0..n).filter(|&j| j != i && img.stored[i][j]).count();
                if off < k {
                    viols.push(Violation::new("sparse.pattern.row_has_fewer_than_k", format!("row {} stores {} off-diagonal cells, k = {}", i, off, k), cj(at.clone())));
                    break;
                }
            }
        }
        if nontrivial {
            bump(&mut cnt, "nontrivial", 1);
        }
        // ---- the views the kernel reports, owned and borrowed ----
        let who_o = if kname == "dense" { "dense.owned" } else { "sparse.owned" };
        let who_v = if kname == "dense" { "dense.view" } else { "sparse.view" };
        match guarded(|| views_of!(kernel, F, n)) {
            Ok(v) => check_views(who_o, &v, &img, n, &tol, is32, viols, &cj, &at),
            Err(p) => viols.push(Violation::new(format!("{}.panic", who_o), format!("a reporting method panicked: {}", p), cj(at.clone()))),
        }
        match guarded(|| {
            let view = kernel.view();
            let v = views_of!(view, F, n);
            let back = view.to_owned();
            (v, back == kernel)
        }) {
            Ok((v, same)) => {
                check_views(who_v, &v, &img, n, &tol, is32, viols, &cj, &at);
                if !same {
                    viols.push(Violation::new(format!("{}.to_owned.differs", who_v), "view().to_owned() != the kernel it was taken from".to_string(), cj(at.clone())));
                }
            }
            Err(p) => viols.push(Violation::new(format!("{}.panic", who_v), format!("a reporting method panicked: {}", p), cj(at.clone()))),
        }
        bump(&mut cnt, "view_sets_checked", 2);
        // documented panic: incompatible shapes in dot
        let wrong: Array2<F> = Array2::zeros((n + 1, 1));
        if guarded(|| kernel.dot(&wrong.view())).is_ok() {
            viols.push(Violation::new(format!("{}.dot.incompatible_shape_no_panic", who_o), format!("dot with a {}x1 rhs on a kernel of size {} did not panic (documented panic)", n + 1, n), cj(at.clone())));
        }

        // ---- builder histories of the kernel parameters: every order of {kind, method, nn_algo},
        // overwritten values (last write wins), defaults relied upon; same kernel required ----
        if case.builders && n > 0 {
            let m = || method_of::<F>(case);
            let other_kind = match kind {
                KernelType::Dense => KernelType::Sparse(1),
                KernelType::Sparse(_) => KernelType::Dense,
            };
            let other_m: KernelMethod<F> = if case.kernel == "linear" { KernelMethod::Gaussian(F::cast(1.5)) } else { KernelMethod::Linear };
            let other_nn = if nn_name == "linear" { CommonNearestNeighbour::BallTree } else { CommonNearestNeighbour::LinearSearch };
            let p0 = || Kernel::<F>::params();
            let (k, nnv) = (|| kind.clone(), || nn.clone());
            let mut hist = vec![
                ("kind_method_nn", p0().kind(k()).method(m()).nn_algo(nnv())),
                ("kind_nn_method", p0().kind(k()).nn_algo(nnv()).method(m())),
                ("method_kind_nn", p0().method(m()).kind(k()).nn_algo(nnv())),
                ("method_nn_kind", p0().method(m()).nn_algo(nnv()).kind(k())),
                ("nn_kind_method", p0().nn_algo(nnv()).kind(k()).method(m())),
                ("nn_method_kind", p0().nn_algo(nnv()).method(m()).kind(k())),
                ("overwrite_all", p0().kind(other_kind.clone()).method(other_m.clone()).nn_algo(other_nn.clone()).nn_algo(nnv()).method(m()).kind(k())),
                ("set_twice_interleaved", p0().method(m()).kind(other_kind.clone()).nn_algo(nnv()).method(other_m.clone()).kind(k()).method(m())),
                ("with_nn_then_nn_algo_twice", Kernel::<F>::params_with_nn(other_nn.clone()).kind(k()).nn_algo(other_nn.clone()).method(m()).nn_algo(nnv())),
            ];
            // rely on the documented defaults: Dense, Gaussian(0.5), KdTree
            let mut dflt = p0();
            if kname != "dense" {
                dflt = dflt.kind(k());
            }
            if !(case.kernel == "gaussian" && case.p1 == 0.5) {
                dflt = dflt.method(m());
            }
            if kname == "sparse" && nn_name != "kdtree" {
                dflt = dflt.nn_algo(nnv());
            }
            hist.push(("defaults_not_set", dflt));
            for (hname, p) in hist {
                bump(&mut cnt, "evals", 1);
                bump(&mut cnt, "builder_history_kernel_builds", 1);
                let got = guarded(|| p.transform(x.view()));
                if got.as_ref().ok() != Some(&kernel) {
                    let mut a = at.clone();
                    a.as_object_mut().unwrap().insert("op".into(), json!("params_builder_history"));
                    a.as_object_mut().unwrap().insert("builder_history".into(), json!(hname));
                    let what = match &got {
                        Ok(k2) => format!("a different kernel ({}, method {:?}, inner matrix {:?})", if matches!(k2.inner, KernelInner::Dense(_)) { "dense" } else { "sparse" }, k2.method, image(k2).m),
                        Err(p) => format!("a panic: {}", p),
                    };
                    viols.push(Violation::new(
                        "kernel.params.builder_order_dependence",
                        format!("parameters built as `{}` (final values: {} k={} {} {}({},{})) give {}, the canonical params_with_nn(nn).kind(..).method(..) gives inner matrix {:?}", hname, kname, kk, nn_name, case.kernel, case.p1, case.p2, what, img.m),
                        cj(a),
                    ));
                }
            }
        }

        // ---- memory layouts: same logical records / right-hand side / inner matrix, other strides ----
        if case.layouts && n > 0 {
            for (lname, view) in alt_layouts.iter() {
                bump(&mut cnt, "evals", 1);
                bump(&mut cnt, "layout_builds", 1);
                let mut a = at.clone();
                a.as_object_mut().unwrap().insert("op".into(), json!("build_from_layout"));
                a.as_object_mut().unwrap().insert("layout".into(), json!(lname));
                match guarded(|| params.transform(*view)) {
                    Ok(k2) => {
                        if k2 != kernel {
                            let i2 = image(&k2);
                            let cell = (0..n).flat_map(|i| (0..n).map(move |j| (i, j))).find(|&(i, j)| i2.m.get(i).and_then(|r| r.get(j)).map_or(true, |v| v.to_bits() != img.m[i][j].to_bits() || i2.stored[i][j] != img.stored[i][j]));
                            viols.push(Violation::new(
                                format!("{}.build.layout_dependence", kname),
                                format!("records as {}: kernel differs from the one built from the standard-layout copy of the same records, first differing cell {:?}: {:?} vs {:?}", lname, cell, cell.and_then(|(i, j)| i2.m.get(i).and_then(|r| r.get(j)).cloned()), cell.map(|(i, j)| img.m[i][j])),
                                cj(a),
                            ));
                        }
                    }
                    Err(p) => {
                        // documented: the k-d tree needs every row contiguous in memory
                        let rows_contiguous = view.row(0).to_slice().is_some();
                        if nn_name == "kdtree" && kname == "sparse" && !rows_contiguous && p.contains("contiguous") {
                            bump(&mut cnt, "kdtree_documented_contiguity_panics", 1);
                        } else {
                            viols.push(Violation::new(format!("{}.build.layout_panic", kname), format!("records as {}: building the kernel panicked: {}", lname, p), cj(a)));
                        }
                    }
                }
            }
            // dot with the n x 2 right-hand side in the same four layouts
            let rhs = &rhs_menu(n)[1];
            let r_std: Array2<F> = Array2::from_shape_fn((n, 2), |(i, j)| F::cast(rhs[i][j]));
            let r_f: Array2<F> = {
                let mut a = Array2::zeros((n, 2).f());
                a.assign(&r_std);
                a
            };
            let r_fm: Array2<F> = Array2::from_shape_fn((2, n), |(j, i)| r_std[(i, j)]);
            let r_rev: Array2<F> = Array2::from_shape_fn((n, 2), |(i, j)| r_std[(n - 1 - i, j)]);
            let r_big: Array2<F> = Array2::from_shape_fn((2 * n, 2), |(i, j)| if i % 2 == 0 { r_std[(i / 2, j)] } else { F::nan() });
            let r_alts: Vec<(&str, ArrayView2<F>)> = vec![
                ("column_major_owned", r_f.view()),
                ("transposed_view_of_feature_major", r_fm.t()),
                ("reversed_view_of_reversed_copy", r_rev.slice(s![..;-1, ..])),
                ("every_second_row_of_poisoned_parent", r_big.slice(s![..;2, ..])),
            ];
            if let Ok(base) = guarded(|| kernel.dot(&r_std.view())) {
                let mscale = img.m.iter().flatten().fold(0.0f64, |s, v| s.max(v.abs())).max(1e-300);
                let rscale = rhs.iter().flatten().fold(0.0f64, |s, v| s.max(v.abs()));
                for (lname, rv) in r_alts.iter() {
                    bump(&mut cnt, "evals", 1);
                    bump(&mut cnt, "layout_dot_runs", 1);
                    let mut a = at.clone();
                    a.as_object_mut().unwrap().insert("op".into(), json!("dot_rhs_layout"));
                    a.as_object_mut().unwrap().insert("layout".into(), json!(lname));
                    match guarded(|| kernel.dot(rv)) {
                        Ok(p) => {
                            let same = p.dim() == base.dim() && p.iter().zip(base.iter()).all(|(u, v)| close(to_f64(*u), to_f64(*v), tol.rel, tol.rel * mscale * rscale * n as f64));
                            if !same {
                                viols.push(Violation::new(format!("{}.dot.layout_dependence", kname), format!("dot with the right-hand side as {} = {:?} but with the standard-layout copy = {:?}", lname, p, base), cj(a)));
                            }
                        }
                        Err(p) => viols.push(Violation::new(format!("{}.dot.layout_panic", kname), format!("dot with the right-hand side as {} panicked: {}", lname, p), cj(a))),
                    }
                }
            }
            // a dense kernel whose inner matrix is stored column-major (the fields are public)
            if let KernelInner::Dense(inner) = &kernel.inner {
                let inner_f: Array2<F> = {
                    let mut a = Array2::zeros((n, n).f());
                    a.assign(inner);
                    a
                };
                let kf: Kernel<F> = Kernel { inner: KernelInner::Dense(inner_f), method: kernel.method.clone() };
                bump(&mut cnt, "evals", 1);
                bump(&mut cnt, "column_major_inner_checked", 1);
                match guarded(|| views_of!(kf, F, n)) {
                    Ok(v) => check_views("dense.column_major_inner", &v, &img, n, &tol, is32, viols, &cj, &at),
                    Err(p) => viols.push(Violation::new("dense.column_major_inner.panic", format!("a reporting method panicked: {}", p), cj(at.clone()))),
                }
                if case.cluster && n >= 2 {
                    for link in linkref::LINKS {
                        for crit in 0..2 {
                            let mk = || {
                                let hc = HierarchicalCluster::<F>::default().with_method(kodama_method(link));
                                if crit == 0 {
                                    hc.num_clusters(2)
                                } else {
                                    // a threshold in the middle of the similarity range
                                    let mid = img.m[0][1].max(1e-6);
                                    hc.max_distance(F::cast((-mid.ln()).max(0.0) + 0.5))
                                }
                            };
                            let a = guarded(|| mk().transform(kernel.clone()).map(|ds| ds.targets().clone()).ok());
                            let b = guarded(|| mk().transform(kf.clone()).map(|ds| ds.targets().clone()).ok());
                            bump(&mut cnt, "evals", 1);
                            bump(&mut cnt, "layout_clustering_runs", 1);
                            if a != b {
                                let mut at2 = at.clone();
                                at2.as_object_mut().unwrap().insert("op".into(), json!("cluster_column_major_inner"));
                                at2.as_object_mut().unwrap().insert("linkage".into(), json!(link.name()));
                                at2.as_object_mut().unwrap().insert("criterion".into(), json!(crit));
                                viols.push(Violation::new("hierarchical.layout_dependence", format!("{} linkage: labels {:?} on the kernel with a column-major inner matrix, {:?} on the standard-layout kernel", link.name(), b, a), cj(at2)));
                            }
                        }
                    }
                }
            }
        }

        // documented panic: column index out of bounds (owned kernel and view are separate impls)
        bump(&mut cnt, "column_out_of_bounds_checked", 2);
        for (form, res) in [("owned", guarded(|| kernel.column(n))), ("view", guarded(|| kernel.view().column(n)))] {
            if let Ok(col) = res {
                let col: Vec<f64> = col.iter().map(|&v| to_f64(v)).collect();
                let sig = if kname == "sparse" && col.len() == n && col.iter().all(|&v| v == 0.0) {
                    format!("sparse.{}.column.out_of_bounds_returns_zeros", form)
                } else {
                    format!("{}.{}.column.out_of_bounds_no_panic", kname, form)
                };
                let mut a = at.clone();
                a.as_object_mut().unwrap().insert("op".into(), json!("column_out_of_bounds"));
                a.as_object_mut().unwrap().insert("form".into(), json!(form));
                viols.push(Violation::new(
                    sig,
                    format!("column({}) on a kernel of size {} returned {:?} instead of panicking (rustdoc of Kernel::column: \"Panics if i is out of bounds\"; the dense kernel does panic)", n, n, col),
                    cj(a),
                ));
            }
        }

        // ---- hierarchical clustering on this kernel ----
        let big = n > 8;
        if case.cluster && !bad_value && (!big || kname == "dense" || (nn_name == "kdtree" && [1usize, 2, 5].contains(&kk))) {
            if clustered.iter().any(|m| *m == img.m) {
                bump(&mut cnt, "clustering_skipped_same_matrix_as_other_index", 1);
            } else {
                clustered.push(img.m.clone());
                cluster_sweep(case, &kernel, &img, &at, viols, &mut cnt);
            }
        }
    }
    // ---- documented panics: neighbour counts outside 0<k<n ----
    {
        for (name, nn) in KINDS.iter() {
            for k in [0usize, n, n + 1] {
                bump(&mut cnt, "evals", 1);
                bump(&mut cnt, "k_out_of_range_checked", 1);
                let params = Kernel::<F>::params_with_nn(nn.clone()).kind(KernelType::Sparse(k)).method(method_of::<F>(case));
                if guarded(|| params.transform(x.view())).is_ok() {
                    viols.push(Violation::new(
                        "sparse.k_out_of_range.accepted",
                        format!("Sparse({}) on {} records with {} did not panic (documented: k must be between 1 and #records-1)", k, n, name),
                        cj(json!({"kind": "sparse", "k": k, "nn": name, "op": "build_out_of_range"})),
                    ));
                }
            }
        }
    }
    cnt
}

#[derive(Clone, Copy, Debug)]
enum Crit {
    N(usize),
    D(f64),
}

/// Every other history of setter calls that ends in the same logical parameters (method `link`,
/// criterion `crit`) as the canonical `default().with_method(m).<criterion>`: the two setters in
/// the other order, values overwritten (last write wins), and the histories that rely on the
/// documented defaults (Average linkage, NumClusters(2)).
fn hc_histories<F: Float>(link: Link, crit: Crit) -> Vec<(&'static str, HierarchicalCluster<F>)> {
    let m = kodama_method(link);
    let other_m = if link == Link::Single { Method::Complete } else { Method::Single };
    let set = |h: HierarchicalCluster<F>, c: Crit| match c {
        Crit::N(c) => h.num_clusters(c),
        Crit::D(t) => h.max_distance(F::cast(t)),
    };
    let (same_kind_other, cross_kind) = match crit {
        Crit::N(c) => (Crit::N(c + 1), Crit::D(0.5)),
        Crit::D(t) => (Crit::D(t + 1.0), Crit::N(1)),
    };
    let d = || HierarchicalCluster::<F>::default();
    let mut v = vec![
        ("criterion_then_method", set(d(), crit).with_method(m)),
        ("overwrite_method_and_criterion", set(set(d().with_method(other_m), same_kind_other).with_method(m), crit)),
        ("other_kind_of_criterion_first", set(set(d(), cross_kind).with_method(m), crit)),
        ("criterion_then_method_twice", set(d(), crit).with_method(other_m).with_method(m)),
        ("criterion_twice_around_method", set(set(d(), cross_kind), crit).with_method(m)),
    ];
    if link == Link::Average {
        v.push(("default_method", set(d(), crit)));
    }
    if let Crit::N(2) = crit {
        v.push(("default_criterion", d().with_method(m)));
    }
    v
}

fn kodama_method(l: Link) -> Method {
    match l {
        Link::Single => Method::Single,
        Link::Complete => Method::Complete,
        Link::Average => Method::Average,
        Link::Weighted => Method::Weighted,
        Link::Ward => Method::Ward,
        Link::Centroid => Method::Centroid,
        Link::Median => Method::Median,
    }
}

/// Only called for f64 kernels (the reference is f64); generic so that it can sit inside `run_typed`.
fn cluster_sweep<F: Float>(case: &Case, kernel: &Kernel<F>, img: &Image, at_kernel: &Value, viols: &mut Vec<Violation>, cnt: &mut Counters) {
    let n = img.m.len();
    // dissimilarity = -ln(max(K, 1e-6)), from the kernel's own (already verified) matrix, computed
    // with the subject's float type so that input entries are bit-identical
    let is32 = case.float == "f32";
    let tie_rel = if is32 { 1e-4 } else { 1e-9 };
    let floor_f: F = F::cast(1e-6);
    let floor = to_f64(floor_f);
    let dis: Vec<Vec<f64>> = (0..n)
        .map(|i| {
            (0..n)
                .map(|j| {
                    if i == j {
                        0.0
                    } else {
                        let x: F = F::cast(img.m[i.min(j)][i.max(j)]);
                        let v = to_f64(if x > floor_f { -x.ln() } else { -floor_f.ln() });
                        if v == 0.0 {
                            0.0
                        } else {
                            v
                        }
                    }
                })
                .collect()
        })
        .collect();
    let mut inputs: Vec<f64> = Vec::new();
    for i in 0..n {
        for j in i + 1..n {
            inputs.push(dis[i][j]);
        }
    }
    let floored = (0..n).any(|i| (0..n).any(|j| i != j && img.m[i][j] <= floor));
    if floored {
        bump(cnt, "clustered_kernels_with_floored_similarities", 1);
    }
    bump(cnt, "clustered_kernels", 1);
    if n > 64 {
        cluster_light(case, kernel, &dis, &inputs, at_kernel, viols, cnt);
        return;
    }
    for link in linkref::LINKS {
        let cj = |extra: Value| -> Value {
            let mut v = serde_json::to_value(case).unwrap();
            let mut a = at_kernel.clone();
            for (k, x) in extra.as_object().unwrap() {
                a.as_object_mut().unwrap().insert(k.clone(), x.clone());
            }
            a.as_object_mut().unwrap().insert("linkage".into(), json!(link.name()));
            v.as_object_mut().unwrap().insert("at".into(), a);
            v
        };
        let run = |hc: HierarchicalCluster<F>, at: Value, viols: &mut Vec<Violation>| -> Option<Vec<usize>> {
            match guarded(|| hc.transform(kernel.clone())) {
                Ok(Ok(ds)) => {
                    if ds.records() != kernel {
                        viols.push(Violation::new("hierarchical.kernel_changed", "the kernel returned as records differs from the input kernel".to_string(), cj(at.clone())));
                    }
                    let t: Vec<usize> = ds.targets().clone();
                    if t.len() != n {
                        viols.push(Violation::new("hierarchical.labels.wrong_length", format!("{} labels for {} samples", t.len(), n), cj(at)));
                        return None;
                    }
                    Some(t)
                }
                Ok(Err(e)) => {
                    viols.push(Violation::new("hierarchical.unexpected_error", format!("valid parameters returned Err({})", e), cj(at)));
                    None
                }
                Err(p) => {
                    viols.push(Violation::new("hierarchical.panic", format!("transform panicked: {}", p), cj(at)));
                    None
                }
            }
        };
        // ---------- NumClusters(c) ----------
        for c in 1..=n + 1 {
            bump(cnt, "evals", 1);
            bump(cnt, "num_clusters_runs", 1);
            if c > 1 && c < n {
                bump(cnt, "nontrivial", 1);
            }
            let at = json!({"criterion": "num_clusters", "c": c});
            let hc = HierarchicalCluster::<F>::default().with_method(kodama_method(link)).num_clusters(c);
            let Some(lab) = run(hc, at.clone(), viols) else { continue };
            if case.builders {
                for (hname, hc2) in hc_histories::<F>(link, Crit::N(c)) {
                    bump(cnt, "evals", 1);
                    bump(cnt, "builder_history_clustering_runs", 1);
                    let got = guarded(|| hc2.transform(kernel.clone()).map(|ds| ds.targets().clone()).ok());
                    if got != Ok(Some(lab.clone())) {
                        let mut a = at.clone();
                        a.as_object_mut().unwrap().insert("builder_history".into(), json!(hname));
                        viols.push(Violation::new(
                            "hierarchical.builder_order_dependence",
                            format!("{} linkage, {:?}: parameters built as `{}` give {:?}, the canonical `default().with_method(m).<criterion>` gives {:?} (same final parameter set)", link.name(), Crit::N(c), hname, got, lab),
                            cj(a),
                        ));
                    }
                }
            }
            let canon = linkref::canon_labels(&lab);
            let count = canon.iter().max().map_or(0, |m| m + 1);
            if count != c.min(n) {
                viols.push(Violation::new(
                    "hierarchical.num_clusters.wrong_count",
                    format!("{} linkage, {} requested on {} samples: {} distinct labels {:?}, expected {}", link.name(), c, n, count, lab, c.min(n)),
                    cj(at),
                ));
                continue;
            }
            let out = linkref::admissible(link, &dis, Stop::Count(c), tie_rel);
            if out.overflow {
                bump(cnt, if n <= 8 { "reference_overflow_on_small_sets" } else { "reference_overflow_on_large_sets" }, 1);
            }
            if out.degenerate || out.overflow {
                bump(cnt, "reference_degenerate_skipped", 1);
                bump(cnt, "indeterminate", 1);
                continue;
            }
            bump(cnt, "num_clusters_partition_compared", 1);
            if out.partitions.len() > 1 {
                bump(cnt, "compared_against_tie_set", 1);
            }
            if !out.partitions.contains(&canon) {
                viols.push(Violation::new(
                    "hierarchical.num_clusters.partition_not_agglomerative",
                    format!(
                        "{} linkage, {} clusters: labels {:?} are not a partition the agglomeration of the dissimilarities can produce (admissible: {:?}); dissimilarities {:?}",
                        link.name(), c, lab, out.partitions, inputs
                    ),
                    cj(at),
                ));
            }
        }
        // ---------- Distance(t) ----------
        // thresholds sit exactly at / midway between the distinct dissimilarities: all input entries
        // and the merge heights of one full agglomeration (large sets: the merge heights and the
        // extreme inputs only); only non-negative finite thresholds are valid parameters
        let mut hs: Vec<f64> = linkref::canonical_heights(link, &dis);
        if n <= 8 {
            hs.extend(inputs.iter().cloned());
        } else {
            hs.push(inputs.iter().cloned().fold(f64::INFINITY, f64::min));
            hs.push(inputs.iter().cloned().fold(f64::NEG_INFINITY, f64::max));
        }
        hs.retain(|h| h.is_finite());
        hs.sort_by(|a, b| a.partial_cmp(b).unwrap());
        let dedupe = if is32 { 1e-4 } else { 1e-7 };
        let mut distinct: Vec<f64> = Vec::new();
        for h in hs {
            if distinct.last().map_or(true, |&l| h - l > dedupe * l.abs().max(1.0)) {
                distinct.push(h);
            }
        }
        let mut thresholds: Vec<(f64, &'static str)> = Vec::new();
        for &h in &distinct {
            thresholds.push((h, "exactly_at"));
        }
        for w in distinct.windows(2) {
            thresholds.push(((w[0] + w[1]) / 2.0, "midpoint"));
        }
        if let Some(&f) = distinct.first() {
            thresholds.push((f / 2.0, "below_min"));
        }
        thresholds.push((0.0, "zero"));
        thresholds.push((distinct.last().cloned().unwrap_or(0.0) + 1.0, "above_max"));
        thresholds.retain(|(t, _)| *t >= 0.0);
        for th in thresholds.iter_mut() {
            // the threshold as the subject sees it
            th.0 = to_f64(F::cast(th.0));
            if th.0 == 0.0 {
                th.0 = 0.0;
            }
        }
        thresholds.dedup_by(|a, b| a.0 == b.0 && a.1 == b.1);
        for (t, tclass) in thresholds {
            bump(cnt, "evals", 1);
            bump(cnt, "threshold_runs", 1);
            let at = json!({"criterion": "distance", "t": t, "t_class": tclass});
            let hc = HierarchicalCluster::<F>::default().with_method(kodama_method(link)).max_distance(F::cast(t));
            let Some(lab) = run(hc, at.clone(), viols) else { continue };
            if case.builders {
                for (hname, hc2) in hc_histories::<F>(link, Crit::D(t)) {
                    bump(cnt, "evals", 1);
                    bump(cnt, "builder_history_clustering_runs", 1);
                    let got = guarded(|| hc2.transform(kernel.clone()).map(|ds| ds.targets().clone()).ok());
                    if got != Ok(Some(lab.clone())) {
                        let mut a = at.clone();
                        a.as_object_mut().unwrap().insert("builder_history".into(), json!(hname));
                        viols.push(Violation::new(
                            "hierarchical.builder_order_dependence",
                            format!("{} linkage, {:?}: parameters built as `{}` give {:?}, the canonical `default().with_method(m).<criterion>` gives {:?} (same final parameter set)", link.name(), Crit::D(t), hname, got, lab),
                            cj(a),
                        ));
                    }
                }
            }
            let canon = linkref::canon_labels(&lab);
            let count = canon.iter().max().map_or(0, |m| m + 1);
            if count > 1 && count < n {
                bump(cnt, "nontrivial", 1);
            }
            if link == Link::Single {
                // the statement's own characterisation, independent of any merge order
                let comp = linkref::components_below(&dis, t);
                bump(cnt, "single_linkage_component_checks", 1);
                if comp != canon {
                    let incl = {
                        // closed-form alternative: components of {d <= t}
                        let up = t + t.abs().max(1e-300) * f64::EPSILON;
                        linkref::components_below(&dis, up) == canon && tclass == "exactly_at"
                    };
                    let sig = if incl { "hierarchical.threshold.merge_at_threshold_performed" } else { "hierarchical.threshold.single_not_components" };
                    viols.push(Violation::new(
                        sig,
                        format!("single linkage, threshold {} ({}): labels {:?} but the connected components of {{d < t}} are {:?}; dissimilarities {:?}", t, tclass, lab, comp, inputs),
                        cj(at.clone()),
                    ));
                    continue;
                }
            }
            let out = linkref::admissible(link, &dis, Stop::Below { t, inclusive: false }, tie_rel);
            if out.overflow {
                bump(cnt, if n <= 8 { "reference_overflow_on_small_sets" } else { "reference_overflow_on_large_sets" }, 1);
            }
            if out.degenerate || out.overflow {
                bump(cnt, "reference_degenerate_skipped", 1);
                bump(cnt, "indeterminate", 1);
                continue;
            }
            if out.near_threshold {
                bump(cnt, "threshold_within_rounding_of_computed_height", 1);
                bump(cnt, "indeterminate", 1);
                continue;
            }
            if !link.monotone() && out.inversion {
                // "every merge below the threshold" is ambiguous when heights are not monotone
                bump(cnt, "nonmonotone_dendrogram_skipped", 1);
                bump(cnt, "indeterminate", 1);
                continue;
            }
            bump(cnt, "threshold_partition_compared", 1);
            if tclass == "exactly_at" {
                bump(cnt, "threshold_exactly_at_compared", 1);
            }
            if out.partitions.len() > 1 {
                bump(cnt, "compared_against_tie_set", 1);
            }
            if !out.partitions.contains(&canon) {
                let alt = linkref::admissible(link, &dis, Stop::Below { t, inclusive: true }, tie_rel);
                let sig = if tclass == "exactly_at" && alt.partitions.contains(&canon) {
                    "hierarchical.threshold.merge_at_threshold_performed"
                } else {
                    "hierarchical.threshold.wrong_partition"
                };
                viols.push(Violation::new(
                    sig,
                    format!(
                        "{} linkage, threshold {} ({}): labels {:?} but performing every merge with dissimilarity < t gives {:?}; dissimilarities {:?}",
                        link.name(), t, tclass, lab, out.partitions, inputs
                    ),
                    cj(at),
                ));
            }
        }
    }
}

/// Sets too large for the tie-exploring reference: label counts for a few requested cluster
/// numbers with every linkage, and single linkage thresholds against connected components.
fn cluster_light<F: Float>(case: &Case, kernel: &Kernel<F>, dis: &[Vec<f64>], inputs: &[f64], at_kernel: &Value, viols: &mut Vec<Violation>, cnt: &mut Counters) {
    let n = dis.len();
    let cj = |extra: Value| -> Value {
        let mut v = serde_json::to_value(case).unwrap();
        let mut a = at_kernel.clone();
        for (k, x) in extra.as_object().unwrap() {
            a.as_object_mut().unwrap().insert(k.clone(), x.clone());
        }
        v.as_object_mut().unwrap().insert("at".into(), a);
        v
    };
    let run = |hc: HierarchicalCluster<F>, at: Value, viols: &mut Vec<Violation>| -> Option<Vec<usize>> {
        match guarded(|| hc.transform(kernel.clone())) {
            Ok(Ok(ds)) => {
                let t: Vec<usize> = ds.targets().clone();
                if t.len() != n {
                    viols.push(Violation::new("hierarchical.labels.wrong_length", format!("{} labels for {} samples", t.len(), n), cj(at)));
                    return None;
                }
                Some(t)
            }
            Ok(Err(e)) => {
                viols.push(Violation::new("hierarchical.unexpected_error", format!("valid parameters returned Err({})", e), cj(at)));
                None
            }
            Err(p) => {
                viols.push(Violation::new("hierarchical.panic", format!("transform panicked: {}", p), cj(at)));
                None
            }
        }
    };
    for link in linkref::LINKS {
        for c in [1usize, 2, 17, n - 1, n, n + 1] {
            bump(cnt, "evals", 1);
            bump(cnt, "nontrivial", (c > 1 && c < n) as u64);
            bump(cnt, "light_num_clusters_runs", 1);
            let at = json!({"criterion": "num_clusters", "c": c, "linkage": link.name()});
            let hc = HierarchicalCluster::<F>::default().with_method(kodama_method(link)).num_clusters(c);
            let Some(lab) = run(hc, at.clone(), viols) else { continue };
            let mut distinct = lab.clone();
            distinct.sort();
            distinct.dedup();
            if distinct.len() != c.min(n) {
                viols.push(Violation::new("hierarchical.num_clusters.wrong_count", format!("{} linkage, {} requested on {} samples: {} distinct labels, expected {}", link.name(), c, n, distinct.len(), c.min(n)), cj(at)));
            }
        }
    }
    // single linkage: thresholds exactly at / between a few order statistics of the input dissimilarities
    let mut sorted: Vec<f64> = inputs.iter().cloned().filter(|v| v.is_finite() && *v >= 0.0).collect();
    sorted.sort_by(|a, b| a.partial_cmp(b).unwrap());
    sorted.dedup();
    let mut ts: Vec<(f64, &'static str)> = Vec::new();
    if !sorted.is_empty() {
        for q in [0usize, 1, 2, sorted.len() / 1000, sorted.len() / 100, sorted.len() / 2, sorted.len() - 1] {
            let q = q.min(sorted.len() - 1);
            ts.push((sorted[q], "exactly_at"));
            if q + 1 < sorted.len() {
                ts.push(((sorted[q] + sorted[q + 1]) / 2.0, "midpoint"));
            }
        }
    }
    ts.push((0.0, "zero"));
    for (t, tclass) in ts {
        let t = to_f64(F::cast(t));
        bump(cnt, "evals", 1);
        bump(cnt, "light_single_threshold_runs", 1);
        let at = json!({"criterion": "distance", "t": t, "t_class": tclass, "linkage": "single"});
        let hc = HierarchicalCluster::<F>::default().with_method(Method::Single).max_distance(F::cast(t));
        let Some(lab) = run(hc, at.clone(), viols) else { continue };
        let canon = linkref::canon_labels_fast(&lab);
        let comp = linkref::canon_labels_fast(&linkref::components_below(dis, t));
        let count = canon.iter().max().map_or(0, |m| m + 1);
        if count > 1 && count < n {
            bump(cnt, "nontrivial", 1);
        }
        if canon != comp {
            viols.push(Violation::new("hierarchical.threshold.single_not_components", format!("single linkage on {} samples, threshold {} ({}): {} clusters but the graph {{d < t}} has {} connected components (or different ones)", n, t, tclass, count, comp.iter().max().map_or(0, |m| m + 1)), cj(at)));
        }
    }
}

fn replay_value(v: &Value) -> Vec<Violation> {
    let c: Case = match serde_json::from_value(v.clone()) {
        Ok(c) => c,
        Err(e) => {
            println!("MACHINERY-ERROR replay case does not parse: {}", e);
            std::process::exit(2);
        }
    };
    let mut out = Vec::new();
    run_case(&c, &mut out);
    if let Some(at) = v.get("at") {
        out.retain(|x| x.case.get("at").map_or(false, |a| at_matches(a, at)));
    }
    out
}

/// Same location inside a case; numbers are compared with a relative 1e-9 slack so that a
/// replay file written by another JSON printer still selects the recorded operation.
fn at_matches(a: &Value, b: &Value) -> bool {
    match (a, b) {
        (Value::Object(x), Value::Object(y)) => x.len() == y.len() && x.iter().all(|(k, v)| y.get(k).map_or(false, |w| at_matches(v, w))),
        (Value::Number(x), Value::Number(y)) => match (x.as_f64(), y.as_f64()) {
            (Some(p), Some(q)) => close(p, q, 1e-9, 0.0),
            _ => x == y,
        },
        _ => a == b,
    }
}

fn main() {
    let ctx = Ctx::new("C06", Level::Exploration);
    ctx.maybe_replay(&replay_value);
    ctx.set_rule(
        "cases = (point set, float type, kernel method). Point sets: every subset of 2..5 (quick) / 2..6 (thorough) points of the 3x3 lattice, \
         the generic-position image of each (constant jitter table), the un-centred affine images offset + spacing x p of every 2..4-subset with (offset, spacing) in {(1e8,1) f64, (-1e6,0.5) f64, (1e3,0.125) f64+f32}, the empty record matrix, every multiset of 1..5 points of {0..4} on a line (duplicates up to 3x), \
         every subset of 2..5 / 2..6 of a pool of 7 three-feature points, and large sets above the neighbour-index leaf size of 16 (5x5 grid, its generic image, 20 points on a line in duplicate pairs, \
         generic 3x3x3 cube, sub-unit copies of these scaled by 0.1 / 0.125, and 20 generic records with 4, 5, 6, 7, 9 features at scale 1 and 0.1 (+ 2/3/5-record prefixes of those); thorough also 6x6, generic 6x6 and 7x7 grids). Kernel methods Linear, Gaussian(0.5), Gaussian(2) (thorough also 0.125, 8), subnormal bandwidths (f64 5e-324, 1e-310; f32 1e-45, 1e-40) on the line multisets and lattice subsets of <= 3 records, Polynomial(c in {0,1}, d in {1,2,3}) and Polynomial(1, 0.5 / 1.5 / 2.5), Polynomial(0.3, 2 / 1.5); f64 and f32; a fractional degree on a point set with some <x,y>+c < 0.01 is out of domain (counted). \
         Per case: Dense and Sparse(k) for EVERY 0<k<n with LinearSearch / KdTree / BallTree, owned kernel and view: every stored cell vs the reference kernel function, \
         pattern vs the brute-force k-nearest ranking, size/sum/column/diagonal/to_upper_triangle/dot(3 right-hand sides) vs the stored matrix, documented panics (k in {0,n,n+1}, dot shape, column index). \
         Clustering sweep on every kernel of a case with a distinct matrix (quick: f64 Gaussian, Linear, Polynomial(1,2); thorough: all methods, f64 and f32; large sets: generic Gaussian kernels, dense and k in {1,2,5}): \
         7 linkage methods x NumClusters(1..n+1) x Distance(t) with t exactly at every distinct input / merge dissimilarity, at every midpoint, half the minimum, 0 and above the maximum (non-negative t only). \
         Memory layouts (subset of the catalogue in quick, nearly all in thorough): every kernel is rebuilt from the same records as column-major owned array, transposed view of a feature-major array, \
         reversed-row view of a reversed copy and every-second-row view of a NaN-poisoned parent and must equal the standard-layout kernel exactly (the k-d tree's documented contiguity panic is accepted and counted); \
         dot with the n x 2 right-hand side in the same four layouts; dense kernel with a column-major inner matrix through all reporting methods and the clustering (NumClusters(2), one threshold, 7 linkages). \
         Size threshold: 1025 generic records (41 x 25 grid): dense Linear / Gaussian(2) f64 in quick; thorough adds f32, Gaussian(0.5), Polynomial(1,1.5), Sparse(k in {1,17}) x 3 indices, layouts; clustering there = label counts for c in {1,2,17,n-1,n,n+1} x 7 linkages and single-linkage thresholds vs connected components; PSD check skipped above n = 64. \
         Builder histories (same subset as the layouts plus all sets of <= 3 records): kernel parameters through all 6 orders of {kind, method, nn_algo}, with every field overwritten (last write wins), and relying on the defaults; \
         clustering parameters as criterion-then-method, with method / criterion overwritten (same and other kind of criterion), and relying on the default method / criterion - always the same kernel / labels as the canonical order. \
         evaluations = kernels built + clustering runs; non-trivial = kernels on n>=2 records (sparse: exact pattern with at least one absent pair), NumClusters with 1<c<n, thresholds that give 1 < #clusters < n; \
         distinct by construction of the enumerators.",
    );
    ctx.assume("kernel functions as pinned by the crate's tests: Gaussian(eps) = exp(-|x-y|^2/eps), Polynomial(c,d) = (<x,y>+c)^d (integer d by repeated multiplication, fractional d as exp(d ln base)), Linear = <x,y>; reference in f64 from the coordinates / parameters as rounded to the subject's float type");
    ctx.assume("stored kernel values vs reference: relative 1e-12 (f64) / 3e-5 (f32); sums and products vs the stored matrix: same tolerances scaled by n x magnitude; column / diagonal / upper triangle are copies and compared exactly; Gaussian diagonal == 1 exactly; PSD: smallest Jacobi eigenvalue >= -1e-10 (f64) / -1e-4 (f32), dense Gaussian kernels only");
    ctx.assume("sparse pattern: pair (i,j) must be stored when j is among i's k nearest under every tie-break and may be stored when under some tie-break (squared-distance margin 1e-12 (f64) / 1e-5 (f32) x largest squared distance); where the two bounds coincide (generic position) the pattern is compared exactly, for each of the three indices; otherwise the case is also counted as indeterminate (tie-robust bounds only)");
    ctx.assume("clustering oracle input = the kernel's own stored matrix (verified against the kernel function in the same case), dissimilarity d = -ln(max(K,1e-6)) computed with the same operations in the kernel's float type (kernels with K>1 give negative d, which the reference handles like any number); trusted base: the Lance-Williams formulas of linkref.rs with the SciPy/fastcluster convention (Ward/Centroid/Median on squared input, height = sqrt)");
    ctx.assume("ties: the reference follows every pair within relative 1e-9 (f32 kernels: 1e-4) of the minimum, the observed partition must be one of the resulting partitions; merge heights produced by arithmetic that fall within that margin of a threshold (also merges that would follow a merge stopped exactly at the threshold) make the run indeterminate; exploration budget per run 400000 nodes (small sets, never reached: see reference_overflow_on_small_sets) / 150 nodes (large sets, overflow = indeterminate); heights that are input entries (Single, Complete, any merge of two singletons) are compared exactly, also at the threshold itself (merge iff d < t, as the statement says)");
    ctx.assume("Centroid / Median: threshold runs whose reference dendrogram has an inversion or a negative / NaN Lance-Williams value are skipped as indeterminate (statement ambiguous there); count checks and NumClusters comparisons still apply unless the reference degenerates; NumClusters(0) is outside the domain (C04) and not run");

    // ---------------- enumerate ----------------
    let mut sets: Vec<(String, Vec<Vec<f64>>, usize)> = Vec::new();
    let lat = en::lattice_points(2, 3);
    let nmax = ctx.pick(5, 6);
    for ss in en::subsets_upto(9, 2, nmax) {
        let p: Vec<Vec<f64>> = ss.iter().map(|&i| lat[i].iter().map(|&v| v as f64).collect()).collect();
        sets.push(("lattice3x3".into(), p, 2));
        let g: Vec<Vec<f64>> = ss.iter().map(|&i| lat[i].iter().enumerate().map(|(j, &v)| v as f64 + en::jitter(i, j)).collect()).collect();
        sets.push(("lattice3x3_generic".into(), g, 2));
    }
    sets.push(("empty".into(), vec![], 2));
    for ms in en::multisets_upto(5, 1, 5, 3) {
        sets.push(("line_multiset".into(), ms.iter().map(|&i| vec![i as f64]).collect(), 1));
    }
    let pool3: Vec<Vec<f64>> = vec![
        vec![0.0, 0.0, 0.0],
        vec![1.0, 0.0, 0.5],
        vec![0.0, 1.5, 1.0],
        vec![1.0, 1.0, 1.0],
        vec![-0.5, 0.25, 2.0],
        vec![0.3, -0.7, 0.9],
        vec![2.0, 0.5, -0.25],
    ];
    for ss in en::subsets_upto(7, 2, nmax) {
        sets.push(("three_features".into(), ss.iter().map(|&i| pool3[i].clone()).collect(), 3));
    }
    // large sets: the neighbour indices are real trees only above their leaf size of 16
    let mut big: Vec<(String, Vec<Vec<f64>>, usize)> = Vec::new();
    let grid = |side: usize, generic: bool| -> Vec<Vec<f64>> {
        en::lattice_points(2, side).iter().enumerate().map(|(i, p)| p.iter().enumerate().map(|(j, &v)| v as f64 + if generic { en::jitter(i, j) } else { 0.0 }).collect()).collect()
    };
    big.push(("grid5x5".into(), grid(5, false), 2));
    big.push(("grid5x5_generic".into(), grid(5, true), 2));
    big.push(("line20_duplicates".into(), (0..20).map(|i| vec![(i / 2) as f64 * 0.5]).collect(), 1));
    big.push((
        "cube3x3x3_generic".into(),
        en::lattice_points(3, 3).iter().enumerate().map(|(i, p)| p.iter().enumerate().map(|(j, &v)| v as f64 * 0.75 + en::jitter(i, j)).collect()).collect(),
        3,
    ));
    // sub-unit coordinate scales (squared vs plain distance confusions are invisible at scales >= 1)
    let scaled = |p: &Vec<Vec<f64>>, s: f64| -> Vec<Vec<f64>> { p.iter().map(|r| r.iter().map(|v| v * s).collect()).collect() };
    big.push(("grid5x5_generic_x0.1".into(), scaled(&grid(5, true), 0.1), 2));
    big.push(("grid5x5_x0.125".into(), scaled(&grid(5, false), 0.125), 2));
    big.push(("line20_duplicates_x0.125".into(), (0..20).map(|i| vec![(i / 2) as f64 * 0.0625]).collect(), 1));
    let cube: Vec<Vec<f64>> = big[3].1.clone();
    big.push(("cube3x3x3_generic_x0.1".into(), scaled(&cube, 0.1), 3));
    // feature counts around the usual unrolling widths, 20 records (> leaf size) in generic position, unit and sub-unit scale
    let hi = |d: usize, n: usize, s: f64| -> Vec<Vec<f64>> { (0..n).map(|i| (0..d).map(|j| (((i * (j + 2) + j * j + i / 3) % 5) as f64 + en::jitter(i, j)) * s).collect()).collect() };
    for d in [4usize, 5, 6, 7, 9] {
        big.push((format!("features{}_n20", d), hi(d, 20, 1.0), d));
        big.push((format!("features{}_n20_x0.1", d), hi(d, 20, 0.1), d));
        for n in [2usize, 3, 5] {
            sets.push((format!("features{}_small", d), hi(d, n, 1.0), d));
        }
    }
    if ctx.thorough() {
        big.push(("grid6x6_generic".into(), grid(6, true), 2));
        big.push(("grid7x7_generic".into(), grid(7, true), 2));
        big.push(("grid6x6".into(), grid(6, false), 2));
    }
    let mut methods: Vec<(&str, f64, f64)> = vec![("linear", 0.0, 0.0), ("gaussian", 0.5, 0.0), ("gaussian", 2.0, 0.0)];
    if ctx.thorough() {
        methods.push(("gaussian", 0.125, 0.0));
        methods.push(("gaussian", 8.0, 0.0));
    }
    for c in [0.0, 1.0] {
        for d in [1.0, 2.0, 3.0] {
            methods.push(("poly", c, d));
        }
    }
    // parameters that are not "round": fractional degrees and a constant that is not representable
    for (c, d) in [(1.0, 0.5), (1.0, 1.5), (1.0, 2.5), (0.3, 2.0), (0.3, 1.5)] {
        methods.push(("poly", c, d));
    }
    let mut cases: Vec<Case> = Vec::new();
    for (is_big, (fam, pts, d)) in sets.iter().map(|s| (false, s)).chain(big.iter().map(|s| (true, s))) {
        for f in ["f64", "f32"] {
            for (k, p1, p2) in &methods {
                // the round-5 families (sub-unit scales, 4..9 features) probe the neighbour search, which does
                // not depend on the kernel method: quick runs them with Linear and Gaussian(2) only
                let round5 = is_big && (fam.contains("_x0.") || fam.starts_with("features"));
                if round5 && ctx.quick() && !(*k == "linear" || (*k == "gaussian" && *p1 == 2.0)) {
                    continue;
                }
                // clustering sweep: quick = f64 Gaussian kernels everywhere, plus Linear and Polynomial(1,2)
                // (dissimilarities of either sign, floored similarities) on the small sets;
                // thorough = every kernel method, f64 and f32
                // (large sets: generic-position Gaussian kernels only - tie exploration is exponential there)
                let big_ok = fam.ends_with("_generic") && *k == "gaussian";
                let cluster = if ctx.thorough() {
                    !is_big || big_ok
                } else {
                    f == "f64" && if is_big { big_ok } else { *k == "gaussian" || *k == "linear" || (*k == "poly" && *p1 == 1.0 && *p2 == 2.0) }
                };
                // memory-layout sweep on a subset of the catalogue (thorough: nearly all of it)
                let np = pts.len();
                let layouts = match fam.as_str() {
                    "lattice3x3_generic" => ctx.thorough() || np <= 4,
                    "lattice3x3" => np <= ctx.pick(3, 5),
                    "three_features" | "line_multiset" => ctx.thorough() || np <= 3,
                    "grid5x5_generic" | "line20_duplicates" | "cube3x3x3_generic" | "features5_n20_x0.1" | "features7_n20" | "grid5x5_generic_x0.1" => true,
                    f if f.ends_with("_small") => true,
                    _ => ctx.thorough() && np > 0,
                };
                cases.push(Case { family: fam.clone(), points: pts.clone(), dim: *d, float: f.into(), kernel: k.to_string(), p1: *p1, p2: *p2, cluster, layouts, builders: layouts || pts.len() <= 3, ks: None });
            }
        }
    }
    // un-centred data: affine images offset + spacing * p of every subset of 2..4 lattice points
    // (dyadic spacings: the coordinates stay exactly representable in the float type named, so the
    // reference - computed from coordinate DIFFERENCES - is exact to rounding); the record norms
    // exceed the pairwise distances by 4..8 orders of magnitude
    let affine: [(f64, f64, &[&str]); 3] = [(1e8, 1.0, &["f64"]), (-1e6, 0.5, &["f64"]), (1e3, 0.125, &["f64", "f32"])];
    let mut affine_sets = 0usize;
    for ss in en::subsets_upto(9, 2, 4) {
        for (off, sp, floats) in affine.iter() {
            affine_sets += 1;
            let p: Vec<Vec<f64>> = ss.iter().map(|&i| lat[i].iter().map(|&v| off + sp * v as f64).collect()).collect();
            for f in floats.iter() {
                for (k, p1, p2) in &methods {
                    // the clustering sweep sees the same Gaussian matrices as on the unshifted lattice;
                    // quick: f64 Gaussian only, thorough: everything
                    let cluster = ctx.thorough() || (*f == "f64" && *k == "gaussian");
                    cases.push(Case { family: format!("lattice3x3_affine({:e},{})", off, sp), points: p.clone(), dim: 2, float: f.to_string(), kernel: k.to_string(), p1: *p1, p2: *p2, cluster, layouts: ctx.thorough(), builders: ctx.thorough() || p.len() <= 2, ks: None });
                }
            }
        }
    }
    ctx.extra("affine_offset_point_sets", json!(affine_sets));
    // size threshold family: 1025 records (one more than 1024) in generic position on a 41 x 25 grid;
    // quick: dense Linear and Gaussian(2) in f64; thorough: also f32, Gaussian(0.5), Polynomial(1,1.5),
    // Sparse(k) for k in {1,17} with the three indices, and the layout sweep on the f64 Gaussian(2) case.
    // Clustering on it is the light sweep (label counts, single-linkage components).
    let huge: Vec<Vec<f64>> = (0..1025usize).map(|i| vec![(i % 41) as f64 + en::jitter(i, 0), (i / 41) as f64 + en::jitter(i, 1)]).collect();
    {
        let hm: Vec<(&str, f64, f64)> = if ctx.thorough() { vec![("linear", 0.0, 0.0), ("gaussian", 2.0, 0.0), ("gaussian", 0.5, 0.0), ("poly", 1.0, 1.5)] } else { vec![("linear", 0.0, 0.0), ("gaussian", 2.0, 0.0)] };
        let hf: Vec<&str> = if ctx.thorough() { vec!["f64", "f32"] } else { vec!["f64"] };
        for f in hf {
            for (k, p1, p2) in &hm {
                cases.push(Case {
                    family: "grid41x25_generic_n1025".into(),
                    points: huge.clone(),
                    dim: 2,
                    float: f.into(),
                    kernel: k.to_string(),
                    p1: *p1,
                    p2: *p2,
                    cluster: true,
                    layouts: ctx.thorough() && f == "f64" && *k == "gaussian" && *p1 == 2.0,
                    builders: false,
                    ks: Some(if ctx.thorough() { vec![1, 17] } else { vec![] }),
                });
            }
        }
    }
    // subnormal Gaussian bandwidths ("Gaussian with any bandwidth"): 1/eps overflows, -d/eps does not
    // for d = 0; small sets incl. the line multisets with duplicate rows
    for (fam, pts, d) in sets.iter().filter(|s| (s.0 == "line_multiset" || s.0 == "lattice3x3") && s.1.len() <= 3) {
        for (f, eps) in [("f64", 5e-324), ("f64", 1e-310), ("f32", 1e-45), ("f32", 1e-40)] {
            cases.push(Case { family: fam.clone(), points: pts.clone(), dim: *d, float: f.into(), kernel: "gaussian".into(), p1: eps, p2: 0.0, cluster: true, layouts: false, builders: false, ks: None });
        }
    }
    // heaviest first (clustering sweeps on the largest sets), so the parallel sweep balances
    cases.sort_by_key(|c| std::cmp::Reverse(c.cluster as usize * 1000 + c.points.len()));
    ctx.extra("point_sets", json!(sets.len() + big.len() + affine_sets + 1));
    ctx.extra("large_point_sets", json!(big.iter().map(|b| format!("{} (n={})", b.0, b.1.len())).collect::<Vec<_>>()));
    ctx.extra("cases_enumerated", json!(cases.len()));

    let totals: std::sync::Mutex<Counters> = std::sync::Mutex::new(Counters::new());
    let done = std::sync::atomic::AtomicU64::new(0);
    par_sweep(&ctx, "kernel + clustering sweep", &cases, |c| {
        let mut v = Vec::new();
        let t0 = std::time::Instant::now();
        let cnt = run_case(c, &mut v);
        if std::env::var("VERIF_C06_SLOW").is_ok() && t0.elapsed().as_secs_f64() > 1.0 {
            eprintln!("slow case {:.1}s: {} n={} {} {} {} {} cluster={}", t0.elapsed().as_secs_f64(), c.family, c.points.len(), c.float, c.kernel, c.p1, c.p2, c.cluster);
        }
        ctx.evals(*cnt.get("evals").unwrap_or(&0), *cnt.get("nontrivial").unwrap_or(&0));
        for _ in 0..*cnt.get("indeterminate").unwrap_or(&0) {
            ctx.indeterminate();
        }
        for _ in 0..*cnt.get("out_of_domain").unwrap_or(&0) {
            ctx.out_of_domain();
        }
        {
            let mut t = totals.lock().unwrap();
            for (k, n) in cnt {
                if k != "evals" && k != "nontrivial" && k != "indeterminate" && k != "out_of_domain" {
                    *t.entry(k).or_insert(0) += n;
                }
            }
        }
        ctx.violations(v);
        done.fetch_add(1, std::sync::atomic::Ordering::Relaxed);
        ctx.sample(|| json!({"family": c.family, "points": c.points, "float": c.float, "kernel": c.kernel, "p1": c.p1, "p2": c.p2}));
    });
    for (k, n) in totals.lock().unwrap().iter() {
        ctx.extra(k, json!(n));
    }
    let completed = done.load(std::sync::atomic::Ordering::Relaxed);
    ctx.extra("cases_completed", json!(completed));
    if completed != cases.len() as u64 {
        ctx.capped(&format!("{} of {} cases completed", completed, cases.len()));
    }
    ctx.finish(&replay_value);
}
