use linfa_linalg::svd::SVD;
use ndarray::{Array2, Axis};
fn main() {
    let path = std::env::args().nth(1).unwrap();
    let v: serde_json::Value = serde_json::from_str(&std::fs::read_to_string(path).unwrap()).unwrap();
    let train: Vec<Vec<f64>> = serde_json::from_value(v["case"]["train"].clone()).unwrap();
    let n = train.len(); let p = train[0].len();
    let a = Array2::from_shape_fn((n, p), |(i, j)| train[i][j]);
    let mean = a.mean_axis(Axis(0)).unwrap();
    let xc = &a - &mean;
    let (u, s, vt) = xc.svd(true, true).unwrap();
    let (u, vt) = (u.unwrap(), vt.unwrap());
    println!("s = {:?}", s);
    println!("u dim {:?} vt dim {:?}", u.dim(), vt.dim());
    let rec = u.dot(&Array2::from_diag(&s)).dot(&vt);
    println!("max |X - U S Vt| = {:e}", (&rec - &xc).iter().fold(0.0f64, |m, x| m.max(x.abs())));
    println!("UtU = {:?}", u.t().dot(&u));
    println!("VtV = {:?}", vt.dot(&vt.t()));
}
