// temporary probe: which whitening fits do not terminate?
use linfa::traits::Fit;
use linfa::DatasetBase;
use linfa_preprocessing::whitening::Whitener;
use ndarray::Array2;
use std::sync::mpsc;
use std::time::Duration;
const ALPHABET: [f64; 5] = [0.0, 1.0, -2.0, 1001.0, 1e-3];
fn main() {
    std::panic::set_hook(Box::new(|_| {}));
    let mut hangs = 0;
    for (n, p) in [(2usize, 3usize), (4, 2), (3, 3)] {
        let total = 5u64.pow((n * p) as u32);
        for idx in 0..total {
            let mut m = vec![0.0; n * p];
            let mut k = idx;
            for e in m.iter_mut() { *e = ALPHABET[(k % 5) as usize]; k /= 5; }
            for fl in ["f64", "f32"] {
                for meth in ["pca", "zca", "cholesky"] {
                    let (tx, rx) = mpsc::channel();
                    let m2 = m.clone();
                    std::thread::spawn(move || {
                        let w = match meth { "pca" => Whitener::pca(), "zca" => Whitener::zca(), _ => Whitener::cholesky() };
                        let r = std::panic::catch_unwind(|| {
                            if fl == "f64" {
                                let a = Array2::from_shape_vec((n, p), m2.clone()).unwrap();
                                w.fit(&DatasetBase::from(a)).map(|_| ()).map_err(|e| e.to_string())
                            } else {
                                let a = Array2::from_shape_vec((n, p), m2.iter().map(|&x| x as f32).collect()).unwrap();
                                w.fit(&DatasetBase::from(a)).map(|_| ()).map_err(|e| e.to_string())
                            }
                        });
                        let _ = tx.send(match r { Ok(Ok(())) => "ok".to_string(), Ok(Err(e)) => format!("err {}", e), Err(_) => "panic".to_string() });
                    });
                    match rx.recv_timeout(Duration::from_millis(1500)) {
                        Ok(_) => {}
                        Err(_) => { hangs += 1; if hangs <= 40 { println!("HANG n={} p={} {} {} {:?}", n, p, fl, meth, m); } }
                    }
                }
            }
        }
        println!("shape {}x{} done, hangs so far {}", n, p, hangs);
        if hangs > 60 { break; }
    }
}
