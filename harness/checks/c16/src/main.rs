//! C16 — scalers and whiteners achieve their normalisation and act as fixed row-wise maps.
//!
//! Bounded exhaustive sweep (DESIGN.md §4 C16), seven families, each enumerated completely:
//!   alphabet   every n x p matrix over {0, 1, -2, 1001, 1e-3} with n in 1..4, p in 1..3 and
//!              n*p <= 8 (quick) / 9 (thorough): post-conditions of all scalers, norm scalers and
//!              (n > p) whiteners on the training matrix, affine map from the accessors, row-wise map;
//!   tiny       columns base + delta * mask, base in {0, 1, 1001}, delta in {1e-12, 1e-18, 2^-52},
//!              every 0/1 mask, n in {2,3}, p in {1,2} (sub-epsilon spreads);
//!   pairs      every (training matrix A, unseen matrix B) from two pools per p: affine map from the
//!              accessors on B, transform(B) row i == transform(B[i..i+1]), every permutation and
//!              every subset of the rows of B, bit for bit;
//!   norm       the norm scalers on every pool matrix with the full row-wise check;
//!   whiten     a catalogue of full-rank 6 / 8 / 12-row matrices x every per-column image
//!              {id, +1001, x1e-3} x global scale {1, 1e-10, 1e9} x PCA / ZCA / Cholesky;
//!   dataset    dataset forms (1-D / 2-D targets, weights, feature and target names, owned / view);
//!   errors     empty training data, flipped min-max range, wrong column count;
//!   layout     training pool x unseen matrices with every record matrix held column-major, as the owned
//!              copy of a transposed feature-major view and of a reversed-row view (+ the dataset forms):
//!              all oracles, plus bit-identity with the standard-layout result of the same fitted object;
//!   extreme    every 2x2 / 1x3 / 3x1 matrix over a 9-letter alphabet of subnormals, the smallest normal,
//!              a value with a subnormal square, +-1 and values next to the top of the range (per float
//!              type): norm scalers, max-abs, min-max;
//!   builder    every constructor form and `.method(..)` setter history (decoy then real, written twice) of
//!              each logical configuration: params equal, published method equal, fit and transforms
//!              bit-identical to the canonical constructor; one params object fitted on A, B, A again; one
//!              fitted object applied to A, B (array / dataset / dataset-view / clone), A again: no state
//!              may leak between calls;
//!   wide       feature counts 4, 5, 6, 7, 9 (n = p+3, 4 with a constant column and a zero row, 1, 2) x the five
//!              record layouts (standard, col_major, transposed_view, reversed_rows_view, reversed_cols_view) and
//!              the three owned front-sliced layouts (slice_move by rows / columns / both: non-zero offset
//!              into a larger allocation filled with poison);
//!   dataset:core  p in {1,2,4,5,6,7,9}, a full-rank and a one-row matrix x 1-D targets {standard, reversed view,
//!              strided view, reversed owned} / 2-D targets {standard, column-major, reversed-row view,
//!              transposed view} x weights {none, standard, reversed, strided} x owned / view records x
//!              DatasetBase::new / From<(records, targets)> x 3 record layouts: the built dataset and the
//!              transformed dataset must publish exactly the logical targets, weights and names;
//!   long       1025 and 4097 rows x 2 columns cycling through the alphabet, standard and column-major:
//!              all oracles, row-wise map on a handful of rows.
//! All of it in f32 and f64. Oracle = plain f64 recomputation (run.rs), no linfa code.

mod run;

use lvmc_core::enumerate as en;
use lvmc_core::{json, par_sweep, Ctx, Level, Value, Violation};
use run::*;
use std::sync::atomic::{AtomicU64, Ordering};
use std::sync::Mutex;

const ALPHABET: [f64; 5] = [0.0, 1.0, -2.0, 1001.0, 1e-3];
const FLOATS: [&str; 2] = ["f64", "f32"];
/// non-standard memory layouts of the record matrices (see run::arr_l)
const LAYOUTS: [&str; 7] = ["col_major", "transposed_view", "reversed_rows_view", "reversed_cols_view", "front_rows_sliced", "front_cols_sliced", "front_both_sliced"];
/// extreme-magnitude alphabets: subnormals, the smallest normal, a value whose square is subnormal,
/// ordinary values and values next to the top of the range — per float type
const EXTREME_F64: [f64; 9] = [0.0, 1e-310, -2e-310, 2.2250738585072014e-308, 1e-160, 1.0, -1.0, 1e300, -1e300];
const EXTREME_F32: [f64; 9] = [0.0, 1e-40, 2e-39, -1e-39, 1.17549435e-38, 1e-21, 1.0, 1e38, -1e38];

enum Job {
    /// matrices start..end (base-5 digits of the index = the entries) of shape n x p
    Alphabet { n: usize, p: usize, start: u64, end: u64, whiten: bool },
    One(Case),
}

fn decode(mut idx: u64, n: usize, p: usize) -> Mat {
    let mut m = vec![vec![0.0; p]; n];
    for i in 0..n {
        for j in 0..p {
            m[i][j] = ALPHABET[(idx % 5) as usize];
            idx /= 5;
        }
    }
    m
}

fn groups(g: &[&str]) -> Vec<String> {
    g.iter().map(|s| s.to_string()).collect()
}

fn fit_case(family: &str, float: &str, p: usize, train: Mat, tests: Vec<Mat>, full: bool, g: &[&str]) -> Case {
    Case {
        kind: "fit".into(),
        family: family.into(),
        float: float.into(),
        p,
        train,
        tests,
        full_rowwise: full,
        groups: groups(g),
        cfg: None,
        ds: None,
        layout: standard_layout(),
        cfgs: vec![],
        rowwise_rows: vec![],
    }
}

fn row_pool(p: usize, which: &str) -> Vec<Vec<f64>> {
    match (which, p) {
        ("train", 1) => vec![vec![0.0], vec![1.0], vec![-2.0], vec![1001.0], vec![1e-3]],
        ("train", 2) => vec![vec![0.0, 0.0], vec![1.0, -2.0], vec![1001.0, 1e-3], vec![1e-3, 1.0], vec![-2.0, 1001.0]],
        ("train", _) => vec![vec![0.0, 0.0, 0.0], vec![1.0, -2.0, 1001.0], vec![1e-3, 1.0, 0.0], vec![1001.0, 1001.0, 1e-3], vec![-2.0, 0.0, 1.0]],
        (_, 1) => vec![vec![0.0], vec![2.5], vec![-1001.0], vec![1e-3], vec![7.0]],
        (_, 2) => vec![vec![0.0, 0.0], vec![2.5, -7.0], vec![1.0, 1.0], vec![-1e-3, 1001.0], vec![1001.0, 0.5]],
        (_, _) => vec![vec![0.0, 0.0, 0.0], vec![2.5, -7.0, 1e3], vec![1.0, 1.0, 1.0], vec![-1e-3, 4.0, 1001.0], vec![1001.0, -2.0, 0.5]],
    }
}

/// Pool of matrices = every multiset (as a sorted row sequence) of n_min..=n_max rows of the row pool,
/// plus the reversed 4-row sequence of rows 1..4 (so that a 4-row matrix — 24 permutations — is
/// always present).
fn matrix_pool(p: usize, which: &str, n_min: usize, n_max: usize) -> Vec<Mat> {
    let rows = row_pool(p, which);
    let mut out: Vec<Mat> = Vec::new();
    for ms in en::multisets_upto(rows.len(), n_min, n_max, n_max.max(1)) {
        out.push(ms.iter().map(|&i| rows[i].clone()).collect());
    }
    let four: Mat = vec![rows[4].clone(), rows[3].clone(), rows[2].clone(), rows[1].clone()];
    if !out.contains(&four) {
        out.push(four);
    }
    out
}

/// Whitening catalogue: deterministic full-rank base matrices x per-column images x global scales.
fn catalogue() -> Vec<(String, usize, Mat)> {
    let mut out = Vec::new();
    for p in 1..=3usize {
        for &n in &[6usize, 8, 12] {
            for fam in ["lattice", "correlated"] {
                let mut base = vec![vec![0.0; p]; n];
                for i in 0..n {
                    for j in 0..p {
                        base[i][j] = if fam == "lattice" {
                            ((i * (j + 2) + j * j + i * i * (j + 1)) % 5) as f64 + 10.0 * en::jitter(i, j)
                        } else if j == 0 {
                            i as f64 + 10.0 * en::jitter(i, 0)
                        } else {
                            0.9f64.powi(j as i32) * i as f64 + 0.3 * ((i * (j + 3)) % 4) as f64 + 10.0 * en::jitter(i, j)
                        };
                    }
                }
                for assign in en::grid(&vec![3; p]) {
                    for &g in &[1.0f64, 1e-10, 1e9] {
                        let m: Mat = base
                            .iter()
                            .map(|r| {
                                r.iter()
                                    .enumerate()
                                    .map(|(j, &x)| {
                                        let y = match assign[j] {
                                            0 => x,
                                            1 => x + 1001.0,
                                            _ => x * 1e-3,
                                        };
                                        y * g
                                    })
                                    .collect()
                            })
                            .collect();
                        let tag = format!("catalogue:{}:n{}:cols{:?}:scale{:e}", fam, n, assign, g);
                        out.push((tag, p, m));
                    }
                }
            }
        }
    }
    out
}

/// Tiny-spread family: all matrices whose columns are drawn from the column menu of the given n.
fn tiny_family() -> Vec<(usize, Mat)> {
    let mut out = Vec::new();
    for n in [2usize, 3] {
        let mut cols: Vec<Vec<f64>> = Vec::new();
        for &base in &[0.0f64, 1.0, 1001.0] {
            cols.push(vec![base; n]); // constant
            for &delta in &[1e-12f64, 1e-18, f64::EPSILON] {
                for mask in 1u32..(1u32 << n) {
                    cols.push((0..n).map(|i| if mask >> i & 1 == 1 { base + delta } else { base }).collect());
                }
            }
        }
        cols.push([0.0, 1.0, -2.0][..n].to_vec());
        // de-duplicate columns that coincide in f64 (1001 + 1e-18 == 1001 ...)
        let mut uniq: Vec<Vec<f64>> = Vec::new();
        for c in cols {
            if !uniq.contains(&c) {
                uniq.push(c);
            }
        }
        for p in [1usize, 2] {
            for pick in en::sequences(p, uniq.len()) {
                let m: Mat = (0..n).map(|i| pick.iter().map(|&c| uniq[c][i]).collect()).collect();
                out.push((p, m));
            }
        }
    }
    out
}

/// Deterministic n x p matrix for the wider feature counts (4..9). variant 1: column 1 constant, row 0 all zero.
fn wide(n: usize, p: usize, variant: usize) -> Mat {
    (0..n)
        .map(|i| {
            (0..p)
                .map(|j| {
                    if variant == 1 && (i == 0 || j == 1) {
                        return if i == 0 { 0.0 } else { 5.0 };
                    }
                    ((i * (j + 2) + j * j + i * i * (j + 1) + variant * 3) % 7) as f64 - 2.0 + 10.0 * en::jitter(i + 3 * variant, j)
                })
                .collect()
        })
        .collect()
}

fn dataset_matrices(p: usize) -> Vec<(Mat, bool)> {
    // (matrix, well-conditioned full rank => whiteners are run too)
    match p {
        1 => vec![(vec![vec![0.0], vec![1.0], vec![-2.0], vec![4.0]], true), (vec![vec![0.0], vec![1001.0], vec![1e-3]], false)],
        2 => vec![
            (vec![vec![0.0, 1.0], vec![1.0, -2.0], vec![3.0, 1.0], vec![-1.0, 0.0]], true),
            (vec![vec![0.0, 0.0], vec![1001.0, 0.0], vec![1e-3, 0.0]], false),
        ],
        _ => vec![
            (vec![vec![0.0, 1.0, 2.0], vec![1.0, -2.0, 0.0], vec![3.0, 1.0, 1.0], vec![-1.0, 0.0, 4.0], vec![2.0, 2.0, -3.0]], true),
            (vec![vec![0.0, 0.0, 0.0], vec![1.0, 1001.0, 5.0], vec![-2.0, 1e-3, 5.0]], false),
        ],
    }
}

fn replay_value(v: &Value) -> Vec<Violation> {
    let case: Case = match serde_json::from_value(v.clone()) {
        Ok(c) => c,
        Err(e) => {
            println!("MACHINERY-ERROR replay case does not parse: {}", e);
            std::process::exit(2);
        }
    };
    let mut out = Vec::new();
    run_case(&case, &mut out);
    out
}

fn main() {
    let ctx = Ctx::new("C16", Level::Exploration);
    ctx.maybe_replay(&replay_value);
    ctx.set_rule(
        "families: alphabet = every n x p matrix over {0,1,-2,1001,1e-3}, n in 1..4, p in 1..3, n*p <= 8 (quick) / 9 (thorough); \
         tiny = every matrix (n in {2,3}, p in {1,2}) whose columns are base + delta*mask, base in {0,1,1001}, delta in {1e-12,1e-18,2^-52}, every 0/1 mask, or constant, or [0,1,-2]; \
         pairs = every (A, B) with A from the training pool (all multisets of 1..3 (quick) / 1..4 (thorough) of 5 rows, one 4-row matrix, the 6-row unscaled catalogue members) and B from the unseen pool \
         (all multisets of 0..3 / 0..4 of 5 other rows, one 4-row matrix); norm = norm scalers on every pool matrix; whiten = catalogue (2 base designs x n in {6,8,12} x 3^p column images x 3 global scales); \
         dataset = 2 matrices per p x 32 dataset forms x 4 memory layouts; layout = training pool (multisets of 2..3 rows, the 4-row matrix, 6-row lattice catalogue members) x unseen matrices x {col_major, transposed_view, reversed_rows_view}; \
         builder = 2 dataset matrices + every 9th 3-row pool matrix per p x {standard, col_major} x 4 unseen matrices (same shape, same shape sharing first and last row, other shape, empty): 37 linear forms per configuration, 12 whitener forms per method, re-use sequences for every configuration; \
         wide = p in {4,5,6,7,9} x 4 training shapes x 8 record layouts (standard, col_major, transposed_view, reversed_rows_view, reversed_cols_view, front_rows_sliced, front_cols_sliced, front_both_sliced) (3 unseen matrices, full row-wise check); dataset:core = 7 feature counts x {full-rank, one-row} x 8 target layouts x 11 weight specs (none; ramp in 3 layouts; all ones / all zeros / mixed with ones; via with_weights or the public field) x owned/view x 2 constructors x 4 record layouts; \
         extreme = every 2x2, 1x3, 3x1 matrix over 9 extreme-magnitude letters per float type (norm scalers, max-abs, min-max only); long = 1025 and 4097 rows x 2 columns, standard and column-major (row-wise check on 9 fixed rows); errors = empty training data for p in 0..3, wrong width 1..4. Every family in f64 and f32 and through every configuration: \
         standard / no-mean / no-std / neither, min-max (0,1), (-1,1), (2,5), (3,3), flipped (5,2), max-abs, norm l1 / l2 / max, whitening PCA / ZCA / Cholesky. \
         One evaluation = one (training matrix [, unseen matrix], float type, configuration) run through all its oracles. Non-trivial: linear scalers = training matrix with >= 2 distinct rows and a non-constant column \
         (or an unseen matrix, or an expected error); norm scalers = a non-zero row; whiteners = full-rank training data with a verdict; dataset / error menu = all. \
         Distinct by construction inside each family (the pools repeat a few alphabet matrices).",
    );
    ctx.assume("reference = plain f64 recomputation from the values as rounded to the subject's float type; relative tolerance 1e-9 (f64) / 1e-4 (f32) as in the oracle policy");
    ctx.assume("standard scaling: unit variance = population variance (ddof 0), as the crate's own tests pin; mean / variance tolerances are REL + 16*eps_F*cond with cond = max|x| / std of the column; columns with 16*eps_F*cond > 0.05 (spread within a few ulps of the values) are indeterminate, not violations");
    ctx.assume("datasets with fewer than two distinct rows are outside the statement's domain for the post-conditions (counted out_of_domain); the affine-map and row-wise checks still run on them");
    ctx.assume("min-max: both ends attained within REL*(max-min) + 8*eps_F*max(|lo|,|hi|); nothing is demanded of constant columns except finite output; max-abs: nothing is demanded of all-zero columns except finite output");
    ctx.assume("a column / row counts as constant / zero only if it is exactly so in the subject's float type (the statement exempts only constant columns and zero rows)");
    ctx.assume("affine map: transform(x) == (x - offsets) * scales [+ offsets for the no-mean variants] [* (max - min) + min] within 8*eps_F*(operand magnitudes); whitening: (x - mean) . T^t within 8*eps_F*(p+1)*sum|T|(|x|+|mean|)");
    ctx.assume("row-wise map: bit-for-bit equality of transform(B) rows with transform of single rows, of every row permutation and of every row subset (n <= 4: all of them; longer matrices: reversal, rotation, drop-first, every other row, empty)");
    ctx.assume("whitening: sample covariance (n-1) of the whitened training data == identity within 1e-8 (f64) / 1e-3 (f32) + 64*eps_F*cond(cov) + 16*eps_F*max|x|/sqrt(lambda_min); full rank = n > p and equilibrated centred matrix of rank p; tolerance > 0.05 => indeterminate; rank-deficient training data => out of domain (fit outcome only tallied)");
    ctx.assume("wrong column count: LinearScaler::transform documents a panic, which is what is checked; nothing is documented for whiteners (not checked)");
    ctx.assume("memory layout: one fitted object applied to the same logical matrix in standard layout and in another layout must give bit-identical values (<scaler>.layout_dependence); accessors of a fit on another layout are only tallied (ndarray sums a lane in a stride-dependent order)");
    ctx.assume("extreme magnitudes: non-finite output for finite input is always a violation; reference l2 norm is computed on the max-scaled row; l2 rows whose sum of squares (in the subject's float type) is below MIN_POSITIVE/eps get the extra tolerance p*min_subnormal/sum and are indeterminate when that exceeds 1e-2; rows whose squares underflow to 0 / overflow to inf and come back unchanged / all-zero get the two narrow norm_scaler.l2.squares_* signatures; tolerances of the affine-map and x/norm checks carry an absolute floor of a few smallest subnormals");
    ctx.assume("builder family: all forms denote the same logical parameters, so params (PartialEq), LinearScaler::method(), fit accessors and transforms must be bit-identical to the canonical constructor's (<thing>.params.builder_order_dependence / .constructor_dependence); re-use: <thing>.params.state_leak_between_fits, <thing>.state_leak_between_calls; the subject has no in-place / caller-buffer entry points (transform consumes its argument), so there is no stale-buffer dimension");
    ctx.assume("dataset pass-through is judged against the logical values the dataset was built from (never against what the dataset itself reports before the transform): targets via as_targets() (logical equality incl. shape), weights() bit for bit, names exactly; a panic of a dataset helper or accessor on these in-domain forms is a violation (dataset.construction_panic / *.weights_accessor_panics)");
    ctx.assume("accumulation length: the cond-scaled tolerances of standard scaling and whitening are multiplied by max(1, n/8)");
    ctx.assume("linfa-preprocessing is built as the repository configures it: pure-Rust linfa-linalg, no BLAS feature");
    ctx.assume("whiteners are fitted only on full-rank training data (and on empty data, which must be an error): nothing is stated for rank-deficient data, and Whitener::zca().fit on a single row with >= 3 columns does not terminate (NaN covariance fed to linfa-linalg's uncapped SVD loop); a watchdog turns any job running > 150 s into a MACHINERY-ERROR naming the case");
    ctx.assume("signature classification only (never a verdict): a PCA / ZCA covariance violation is labelled *.inaccurate_svd_of_linfa_linalg when linfa-linalg's SVD of the very matrix the subject hands to it has a relative reconstruction residual > 64 eps_F; the two clamp signatures are assigned only when the eigenvalues of the observed covariance match the closed form of the clamp");
    ctx.assume("quick tier: whiteners on the alphabet matrices up to n*p = 6 (4x2 only in thorough); alphabet / tiny / catalogue families use the light row-wise check (single rows + reversal), the pairs and norm families the full one");

    // ---------------- enumerate ----------------
    let mut jobs: Vec<Job> = Vec::new();
    let cap = ctx.pick(8usize, 9usize);
    let mut alphabet_matrices: u64 = 0;
    for n in 1..=4usize {
        for p in 1..=3usize {
            if n * p > cap {
                continue;
            }
            let total = 5u64.pow((n * p) as u32);
            alphabet_matrices += total;
            // quick: whiteners on the alphabet matrices up to n*p = 6 (the 4x2 shape only in thorough)
            let whiten = n > p && n * p <= ctx.pick(6usize, 9usize);
            let chunk = 1500u64;
            let mut s = 0;
            while s < total {
                let e = (s + chunk).min(total);
                jobs.push(Job::Alphabet { n, p, start: s, end: e, whiten });
                s = e;
            }
        }
    }
    let tiny = tiny_family();
    for (p, m) in &tiny {
        for f in FLOATS {
            jobs.push(Job::One(fit_case("tiny", f, *p, m.clone(), vec![], false, &["linear", "norm"])));
        }
    }
    let cat = catalogue();
    let nmax = ctx.pick(3usize, 4usize);
    let mut pair_count: u64 = 0;
    let mut pool_matrices: u64 = 0;
    for p in 1..=3usize {
        let mut train_pool = matrix_pool(p, "train", 1, nmax);
        for (tag, cp, m) in &cat {
            if *cp == p && m.len() == 6 && tag.ends_with("scale1e0") {
                train_pool.push(m.clone());
            }
        }
        let test_pool = matrix_pool(p, "test", 0, nmax);
        pair_count += (train_pool.len() * test_pool.len()) as u64;
        for f in FLOATS {
            for a in &train_pool {
                jobs.push(Job::One(fit_case("pairs", f, p, a.clone(), test_pool.clone(), true, &["linear", "whiten"])));
            }
            for m in train_pool.iter().chain(test_pool.iter()) {
                jobs.push(Job::One(fit_case("norm", f, p, m.clone(), vec![], true, &["norm"])));
            }
        }
        pool_matrices += (train_pool.len() + test_pool.len()) as u64;
    }
    let mut cat_full_rank = 0u64;
    for (tag, p, m) in &cat {
        if whiten_domain(m, *p).full_rank {
            cat_full_rank += 1;
        }
        let unseen = matrix_pool(*p, "test", 2, 2);
        for f in FLOATS {
            jobs.push(Job::One(fit_case(tag, f, *p, m.clone(), unseen[..3].to_vec(), false, &["whiten"])));
        }
    }
    let mut dataset_cases = 0u64;
    for p in 1..=3usize {
        for (m, well) in dataset_matrices(p) {
            for opt in en::grid(&[2, 2, 2, 2, 2]) {
                for f in FLOATS {
                    let ds = DsOpt {
                        targets: if opt[0] == 0 { "usize_1d".into() } else { "f64_2d".into() },
                        weights: opt[1] == 1,
                        feature_names: opt[2] == 1,
                        target_names: opt[3] == 1,
                        view: opt[4] == 1,
                        target_layout: standard_layout(),
                        weight_layout: standard_layout(),
                        ctor: ctor_new(),
                        weight_values: weights_ramp(),
                        weight_set: weights_setter(),
                    };
                    let g: &[&str] = if well { &["linear", "norm", "whiten"] } else { &["linear", "norm"] };
                    jobs.push(Job::One(Case {
                        kind: "dataset".into(),
                        family: "dataset".into(),
                        float: f.into(),
                        p,
                        train: m.clone(),
                        tests: vec![],
                        full_rowwise: false,
                        groups: groups(g),
                        cfg: None,
                        ds: Some(ds.clone()),
                        layout: standard_layout(),
                        cfgs: vec![],
                        rowwise_rows: vec![],
                    }));
                    dataset_cases += 1;
                    // the same dataset form with the records held in the other memory layouts
                    for lay in LAYOUTS {
                        jobs.push(Job::One(Case {
                            kind: "dataset".into(),
                            family: "layout:dataset".into(),
                            float: f.into(),
                            p,
                            train: m.clone(),
                            tests: vec![],
                            full_rowwise: false,
                            groups: groups(g),
                            cfg: None,
                            ds: Some(ds.clone()),
                            layout: lay.to_string(),
                            cfgs: vec![],
                            rowwise_rows: vec![],
                        }));
                        dataset_cases += 1;
                    }
                }
            }
        }
    }
    // ---- layout family: training pool x a few unseen matrices x the three non-standard layouts
    let mut layout_cases = 0u64;
    for p in 1..=3usize {
        let mut train_pool = matrix_pool(p, "train", 2, 3);
        for (tag, cp, m) in &cat {
            if *cp == p && m.len() == 6 && tag.ends_with("scale1e0") && tag.contains("lattice") {
                train_pool.push(m.clone());
            }
        }
        let unseen: Vec<Mat> = matrix_pool(p, "test", 2, 3).into_iter().step_by(7).collect();
        for lay in LAYOUTS {
            for f in FLOATS {
                for a in &train_pool {
                    let mut c = fit_case(&format!("layout:{}", lay), f, p, a.clone(), unseen.clone(), false, &["linear", "norm", "whiten"]);
                    c.layout = lay.to_string();
                    jobs.push(Job::One(c));
                    layout_cases += 1;
                }
            }
        }
    }
    ctx.extra("layout_family_cases", json!(layout_cases));
    // ---- extreme-magnitude family: every 2x2, 1x3 and 3x1 matrix over the 9-letter alphabet of the float type
    let mut extreme_cases = 0u64;
    for (f, alpha) in [("f64", EXTREME_F64), ("f32", EXTREME_F32)] {
        for (n, p) in [(2usize, 2usize), (1, 3), (3, 1)] {
            for seq in en::sequences(n * p, alpha.len()) {
                let m: Mat = (0..n).map(|i| (0..p).map(|j| alpha[seq[i * p + j]]).collect()).collect();
                let mut c = fit_case("extreme", f, p, m, vec![], false, &["linear", "norm"]);
                c.cfgs = ["maxabs", "minmax_0_1", "minmax_-1_1", "minmax_2_5", "norm_l1", "norm_l2", "norm_max"].iter().map(|s| s.to_string()).collect();
                jobs.push(Job::One(c));
                extreme_cases += 1;
            }
        }
    }
    ctx.extra("extreme_family_cases", json!(extreme_cases));
    // ---- long family: more than 1024 and more than 4096 rows, values cycling through the alphabet
    for n in [1025usize, 4097] {
        let m: Mat = (0..n).map(|i| vec![ALPHABET[i % 5], ALPHABET[(i * 7 + i / 3) % 5]]).collect();
        let rows = vec![0, 1, 2, 511, 1023, 1024, n / 2, n - 2, n - 1];
        let unseen: Mat = (0..n).map(|i| vec![ALPHABET[(i + 2) % 5] * 1.5 - 0.25, ALPHABET[(i * 3 + 1) % 5] + 7.0]).collect();
        for lay in ["standard", "col_major"] {
            for f in FLOATS {
                let mut c = fit_case(&format!("long:{}", lay), f, 2, m.clone(), vec![unseen.clone()], false, &["linear", "norm", "whiten"]);
                c.layout = lay.to_string();
                c.rowwise_rows = rows.clone();
                jobs.push(Job::One(c));
            }
        }
    }
    // ---- wide family: feature counts 4, 5, 6, 7, 9 (and the one-row / two-row shapes) through every layout
    let mut wide_cases = 0u64;
    for p in [4usize, 5, 6, 7, 9] {
        let trains = vec![wide(p + 3, p, 0), wide(4, p, 1), wide(1, p, 0), wide(2, p, 2)];
        let tests = vec![wide(3, p, 3), wide(1, p, 4), wide(4, p, 1)];
        for a in &trains {
            for lay in std::iter::once("standard").chain(LAYOUTS.iter().cloned()) {
                for f in FLOATS {
                    let mut c = fit_case(&format!("wide:{}", lay), f, p, a.clone(), tests.clone(), true, &["linear", "norm", "whiten"]);
                    c.layout = lay.to_string();
                    jobs.push(Job::One(c));
                    wide_cases += 1;
                }
            }
        }
    }
    ctx.extra("wide_family_cases", json!(wide_cases));
    // ---- dataset:core family: the dataset helpers of the core crate on every target / weight layout,
    //      both constructors, owned and view records, one-row / one-feature shapes, feature counts up to 9
    let mut core_cases = 0u64;
    for p in [1usize, 2, 4, 5, 6, 7, 9] {
        let mats: Vec<(Mat, bool)> = vec![(wide(p + 3, p, 0), true), (wide(1, p, 0), false)];
        for (m, well) in &mats {
            let g: &[&str] = if *well { &["linear", "norm", "whiten"] } else { &["linear", "norm"] };
            for (targets, tl) in [
                ("usize_1d", "standard"), ("usize_1d", "reversed_view"), ("usize_1d", "strided_view"), ("usize_1d", "reversed_owned"),
                ("f64_2d", "standard"), ("f64_2d", "col_major"), ("f64_2d", "reversed_rows_view"), ("f64_2d", "transposed_view"),
            ] {
                for (wl, wvals, wset) in [
                    ("none", "ramp", "with_weights"),
                    ("standard", "ramp", "with_weights"),
                    ("reversed_owned", "ramp", "with_weights"),
                    ("strided_owned", "ramp", "with_weights"),
                    ("standard", "ramp", "field"),
                    ("standard", "all_ones", "with_weights"),
                    ("standard", "all_ones", "field"),
                    ("reversed_owned", "all_ones", "with_weights"),
                    ("standard", "all_zeros", "with_weights"),
                    ("standard", "mixed", "with_weights"),
                    ("standard", "mixed", "field"),
                ] {
                    for view in [false, true] {
                        for ctor in ["new", "from_tuple"] {
                            for lay in ["standard", "col_major", "reversed_cols_view", "front_both_sliced"] {
                                for f in FLOATS {
                                    let ds = DsOpt {
                                        targets: targets.into(),
                                        weights: wl != "none",
                                        feature_names: true,
                                        target_names: true,
                                        view,
                                        target_layout: tl.into(),
                                        weight_layout: if wl == "none" { standard_layout() } else { wl.into() },
                                        ctor: ctor.into(),
                                        weight_values: wvals.into(),
                                        weight_set: wset.into(),
                                    };
                                    let mut c = fit_case("dataset:core", f, p, m.clone(), vec![], false, g);
                                    c.kind = "dataset".into();
                                    c.layout = lay.into();
                                    c.ds = Some(ds);
                                    jobs.push(Job::One(c));
                                    core_cases += 1;
                                }
                            }
                        }
                    }
                }
            }
        }
    }
    ctx.extra("dataset_core_family_cases", json!(core_cases));
    // ---- builder family: constructor forms / setter histories, re-use of params and fitted objects
    let mut builder_cases = 0u64;
    for p in 1..=3usize {
        let mut trains: Vec<Mat> = dataset_matrices(p).into_iter().map(|(m, _)| m).collect();
        trains.extend(matrix_pool(p, "train", 3, 3).into_iter().step_by(9));
        for a in &trains {
            // unseen / second-fit matrices: a same-shape matrix with other values, a same-shape matrix that
            // shares the first and the last row with A, a matrix of another shape, and an empty one
            let same_shape: Mat = a.iter().enumerate().map(|(i, r)| r.iter().enumerate().map(|(j, x)| x * 1.5 + (i * i) as f64 - 0.25 * j as f64).collect()).collect();
            let mut shares_ends = a.clone();
            let mid = a.len() / 2;
            for x in shares_ends[mid].iter_mut() {
                *x = *x * -2.0 + 3.0;
            }
            let other_shape = matrix_pool(p, "test", 2, 2)[3].clone();
            let tests = vec![same_shape, shares_ends, other_shape, vec![]];
            for lay in ["standard", "col_major"] {
                for f in FLOATS {
                    let mut c = fit_case("builder", f, p, a.clone(), tests.clone(), false, &["linear", "norm", "whiten"]);
                    c.kind = "builder".into();
                    c.layout = lay.to_string();
                    jobs.push(Job::One(c));
                    builder_cases += 1;
                }
            }
        }
    }
    ctx.extra("builder_family_cases", json!(builder_cases));
    for p in 0..=3usize {
        for f in FLOATS {
            let mut c = fit_case("errors:empty_training", f, p, vec![], vec![], false, &["linear", "whiten"]);
            c.kind = "errors".into();
            jobs.push(Job::One(c));
            if p >= 1 {
                let mut c = fit_case("errors:wrong_width", f, p, dataset_matrices(p)[0].0.clone(), vec![], false, &["linear"]);
                c.kind = "errors".into();
                jobs.push(Job::One(c));
            }
        }
    }
    ctx.extra("alphabet_matrices_enumerated", json!(alphabet_matrices));
    ctx.extra("tiny_family_matrices", json!(tiny.len()));
    ctx.extra("pairs_train_x_unseen", json!(pair_count));
    ctx.extra("pool_matrices", json!(pool_matrices));
    ctx.extra("catalogue_matrices", json!(cat.len()));
    ctx.extra("catalogue_matrices_full_rank", json!(cat_full_rank));
    ctx.extra("dataset_cases", json!(dataset_cases));
    ctx.extra("jobs_enumerated", json!(jobs.len()));

    // ---------------- sweep ----------------
    let jobs_done = AtomicU64::new(0);
    let alphabet_done = AtomicU64::new(0);
    let total = Mutex::new(Cnt::default());
    // safety net: linfa-linalg's SVD loop has no iteration cap; a job that does not come back is a
    // machinery error with the case printed, never a silent hang
    let inflight: std::sync::Arc<Mutex<Vec<(u64, std::time::Instant, String)>>> = std::sync::Arc::new(Mutex::new(Vec::new()));
    {
        let inflight = inflight.clone();
        std::thread::spawn(move || loop {
            std::thread::sleep(std::time::Duration::from_secs(5));
            let g = inflight.lock().unwrap();
            if let Some((_, _, what)) = g.iter().find(|(_, t, _)| t.elapsed().as_secs() > 150) {
                println!("MACHINERY-ERROR a job did not finish within 150 s (subject does not terminate?): {}", what);
                std::process::exit(2);
            }
        });
    }
    let job_ids = AtomicU64::new(0);
    let printed = AtomicU64::new(0);
    let by_family: Mutex<std::collections::BTreeMap<String, u64>> = Mutex::new(Default::default());
    par_sweep(&ctx, "c16 sweep", &jobs, |job| {
        let id = job_ids.fetch_add(1, Ordering::Relaxed);
        inflight.lock().unwrap().push((
            id,
            std::time::Instant::now(),
            match job {
                Job::Alphabet { n, p, start, end, .. } => format!("alphabet matrices {}x{} #{}..{}", n, p, start, end),
                Job::One(c) => serde_json::to_string(&json!({"family": c.family, "float": c.float, "layout": c.layout, "p": c.p, "rows": c.train.len(), "train_first_rows": c.train.iter().take(8).collect::<Vec<_>>()})).unwrap(),
            },
        ));
        let mut cnt = Cnt::default();
        let mut viols: Vec<Violation> = Vec::new();
        match job {
            Job::Alphabet { n, p, start, end, whiten } => {
                for idx in *start..*end {
                    let m = decode(idx, *n, *p);
                    for f in FLOATS {
                        let g: &[&str] = if *whiten { &["linear", "norm", "whiten"] } else { &["linear", "norm"] };
                        let case = fit_case("alphabet", f, *p, m.clone(), vec![], false, g);
                        cnt.merge(run_case(&case, &mut viols));
                        if idx % 977 == 0 {
                            ctx.sample(|| json!({"family": "alphabet", "float": f, "train": case.train}));
                        }
                    }
                    alphabet_done.fetch_add(1, Ordering::Relaxed);
                }
            }
            Job::One(case) => {
                cnt.merge(run_case(case, &mut viols));
                ctx.sample(|| json!({"family": case.family, "kind": case.kind, "float": case.float, "layout": case.layout, "rows": case.train.len(), "train_first_rows": case.train.iter().take(6).collect::<Vec<_>>(), "unseen_matrices": case.tests.len(), "dataset_form": case.ds}));
            }
        }
        ctx.evals(cnt.evals, cnt.nontrivial);
        for _ in 0..cnt.ood {
            ctx.out_of_domain();
        }
        for _ in 0..cnt.indet {
            ctx.indeterminate();
        }
        {
            let mut g = by_family.lock().unwrap();
            for x in &viols {
                let fam = x.case.get("family").and_then(|f| f.as_str()).unwrap_or("?");
                let fam = fam.split(':').next().unwrap_or("?");
                let fl = x.case.get("float").and_then(|f| f.as_str()).unwrap_or("?");
                let key = format!("{} | {} | {}", x.sig, fam, fl);
                // debugging aid: C16_PRINT=<substring of "sig | family | float"> prints the first few matches
                if let Ok(pat) = std::env::var("C16_PRINT") {
                    if key.contains(&pat) && printed.fetch_add(1, Ordering::Relaxed) < 6 {
                        println!("DEBUG {} :: {} :: {}", key, x.what, x.case);
                    }
                }
                *g.entry(key).or_insert(0u64) += 1;
            }
        }
        ctx.violations(viols);
        cnt.evals = 0;
        cnt.nontrivial = 0;
        cnt.ood = 0;
        cnt.indet = 0;
        total.lock().unwrap().merge(cnt);
        inflight.lock().unwrap().retain(|(i, _, _)| *i != id);
        jobs_done.fetch_add(1, Ordering::Relaxed);
    });
    for (k, n) in &total.lock().unwrap().extra {
        ctx.extra(k, json!(n));
    }
    ctx.extra("violations_by_signature_family_float", json!(*by_family.lock().unwrap()));
    let done = jobs_done.load(Ordering::Relaxed);
    ctx.extra("jobs_completed", json!(done));
    ctx.extra("alphabet_matrices_completed", json!(alphabet_done.load(Ordering::Relaxed)));
    if done != jobs.len() as u64 || alphabet_done.load(Ordering::Relaxed) != alphabet_matrices {
        ctx.capped(&format!("{} of {} jobs completed", done, jobs.len()));
    }
    ctx.finish(&replay_value);
}
