//! Oracles of C16: one `Case` = one training matrix (+ optional unseen matrices) in one float type,
//! run through every transformer configuration. Everything the oracle computes is plain f64 on
//! `Vec<Vec<f64>>` (lvmc_core::refmath), from the values exactly as the subject sees them (after
//! rounding to its float type).

use linfa::dataset::AsTargets;
use linfa::traits::{Fit, Transformer};
use linfa::{DatasetBase, Float};
use linfa_preprocessing::linear_scaling::{LinearScaler, LinearScalerParams, ScalingMethod};
use linfa_preprocessing::norm_scaling::NormScaler;
use linfa_preprocessing::whitening::{FittedWhitener, Whitener, WhiteningMethod};
use lvmc_core::refmath;
use lvmc_core::{guarded, json, Value, Violation};
use ndarray::{Array1, Array2, ArrayBase, Axis, Data, Ix2};
use serde::{Deserialize, Serialize};
use std::collections::BTreeMap;

pub type Mat = Vec<Vec<f64>>;

pub const SIG_ZERO_ROW: &str = "norm_scaler.zero_row_nan";
pub const SIG_SUBEPS_STD: &str = "linear_scaler.standard.sub_epsilon_spread_treated_as_constant";
pub const SIG_SUBEPS_MINMAX: &str = "linear_scaler.minmax.sub_epsilon_spread_treated_as_constant";
pub const SIG_SUBEPS_MAXABS: &str = "linear_scaler.maxabs.sub_epsilon_spread_treated_as_constant";
pub const SIG_L2_UNDERFLOW: &str = "norm_scaler.l2.squares_underflow_row_left_unscaled";
pub const SIG_L2_OVERFLOW: &str = "norm_scaler.l2.squares_overflow_row_zeroed";
pub const SIG_PCA_CLAMP: &str = "whitener.pca.singular_values_below_1e-8_clamped";
pub const SIG_ZCA_CLAMP: &str = "whitener.zca.inverse_sqrt_eigenvalue_floored_at_1e-8";

/// Float types of the subject: machine epsilon, the relative tolerance of the oracle policy
/// (README: 1e-9 for f64, 1e-4 for f32) and the base tolerance of the whitening covariance check.
pub trait Fl: Float {
    const NAME: &'static str;
    const EPS: f64;
    const REL: f64;
    const WBASE: f64;
    /// smallest positive subnormal, smallest positive normal, largest finite value of the type
    const TINY: f64;
    const MINPOS: f64;
    const MAXF: f64;
}
impl Fl for f64 {
    const NAME: &'static str = "f64";
    const EPS: f64 = f64::EPSILON;
    const REL: f64 = 1e-9;
    const WBASE: f64 = 1e-8;
    const TINY: f64 = 5e-324;
    const MINPOS: f64 = f64::MIN_POSITIVE;
    const MAXF: f64 = f64::MAX;
}
impl Fl for f32 {
    const NAME: &'static str = "f32";
    const EPS: f64 = f32::EPSILON as f64;
    const REL: f64 = 1e-4;
    const WBASE: f64 = 1e-3;
    const TINY: f64 = 1.401298464324817e-45;
    const MINPOS: f64 = f32::MIN_POSITIVE as f64;
    const MAXF: f64 = f32::MAX as f64;
}

#[derive(Clone, Debug, Serialize, Deserialize, PartialEq)]
pub struct DsOpt {
    /// "usize_1d" | "f64_2d"
    pub targets: String,
    pub weights: bool,
    pub feature_names: bool,
    pub target_names: bool,
    /// records held as an `ArrayView2` instead of an owned array
    pub view: bool,
    /// layout of the target array. 1-D: "standard" | "reversed_view" | "strided_view" | "reversed_owned";
    /// 2-D: "standard" | "col_major" | "reversed_rows_view" | "transposed_view"
    #[serde(default = "standard_layout")]
    pub target_layout: String,
    /// layout of the owned weight array: "standard" | "reversed_owned" | "strided_owned"
    #[serde(default = "standard_layout")]
    pub weight_layout: String,
    /// "new" (DatasetBase::new) | "from_tuple" (DatasetBase::from((records, targets)))
    #[serde(default = "ctor_new")]
    pub ctor: String,
    /// "ramp" (0.5, 1.75, ...) | "all_ones" | "all_zeros" | "mixed" (1, 0, 2.5, 1, ...)
    #[serde(default = "weights_ramp")]
    pub weight_values: String,
    /// "with_weights" (builder method) | "field" (the public `weights` field is assigned)
    #[serde(default = "weights_setter")]
    pub weight_set: String,
}
pub fn weights_ramp() -> String {
    "ramp".to_string()
}
pub fn weights_setter() -> String {
    "with_weights".to_string()
}
pub fn ctor_new() -> String {
    "new".to_string()
}

#[derive(Clone, Debug, Serialize, Deserialize)]
pub struct Case {
    /// "fit" (fit on train, post-conditions on train, affine + row-wise map on train and tests)
    /// | "dataset" (dataset form: metadata pass-through) | "errors" (empty training data / wrong width)
    pub kind: String,
    pub family: String,
    pub float: String,
    pub p: usize,
    pub train: Mat,
    #[serde(default)]
    pub tests: Vec<Mat>,
    /// true: every permutation and every subset of the rows; false: single rows, reversal, drop-first
    #[serde(default)]
    pub full_rowwise: bool,
    /// transformer groups to run: "linear", "norm", "whiten"
    #[serde(default)]
    pub groups: Vec<String>,
    /// restrict to one transformer configuration (set in violation artefacts)
    #[serde(default)]
    pub cfg: Option<String>,
    #[serde(default)]
    pub ds: Option<DsOpt>,
    /// memory layout of every record matrix handed to fit / transform: "standard" (row-major owned),
    /// "col_major" (column-major owned), "transposed_view" (owned copy, with its memory order, of the
    /// transposed view of a feature-major array), "reversed_rows_view" (same for a reversed-row view)
    #[serde(default = "standard_layout")]
    pub layout: String,
    /// restrict to these configurations (empty = all of the groups)
    #[serde(default)]
    pub cfgs: Vec<String>,
    /// non-empty: the row-wise check uses exactly these rows (single rows, the list as a selection and
    /// reversed) instead of the full / light menus — for matrices with thousands of rows
    #[serde(default)]
    pub rowwise_rows: Vec<usize>,
}
pub fn standard_layout() -> String {
    "standard".to_string()
}

#[derive(Default)]
pub struct Cnt {
    pub evals: u64,
    pub nontrivial: u64,
    pub ood: u64,
    pub indet: u64,
    pub extra: BTreeMap<&'static str, u64>,
}
impl Cnt {
    pub fn bump(&mut self, k: &'static str, n: u64) {
        *self.extra.entry(k).or_insert(0) += n;
    }
    pub fn merge(&mut self, o: Cnt) {
        self.evals += o.evals;
        self.nontrivial += o.nontrivial;
        self.ood += o.ood;
        self.indet += o.indet;
        for (k, n) in o.extra {
            *self.extra.entry(k).or_insert(0) += n;
        }
    }
}

#[derive(Clone, Copy, Debug)]
pub enum Lin {
    Std(bool, bool),
    MinMax(f64, f64),
    MaxAbs,
}
pub struct LinCfg {
    pub name: &'static str,
    pub fam: &'static str,
    pub kind: Lin,
}
pub const LINS: &[LinCfg] = &[
    LinCfg { name: "standard", fam: "standard", kind: Lin::Std(true, true) },
    LinCfg { name: "standard_no_mean", fam: "standard", kind: Lin::Std(false, true) },
    LinCfg { name: "standard_no_std", fam: "standard", kind: Lin::Std(true, false) },
    LinCfg { name: "standard_neither", fam: "standard", kind: Lin::Std(false, false) },
    LinCfg { name: "minmax_0_1", fam: "minmax", kind: Lin::MinMax(0.0, 1.0) },
    LinCfg { name: "minmax_-1_1", fam: "minmax", kind: Lin::MinMax(-1.0, 1.0) },
    LinCfg { name: "minmax_2_5", fam: "minmax", kind: Lin::MinMax(2.0, 5.0) },
    LinCfg { name: "minmax_3_3", fam: "minmax", kind: Lin::MinMax(3.0, 3.0) },
    LinCfg { name: "minmax_flipped_5_2", fam: "minmax", kind: Lin::MinMax(5.0, 2.0) },
    LinCfg { name: "maxabs", fam: "maxabs", kind: Lin::MaxAbs },
];
pub const NORMS: &[&str] = &["norm_l1", "norm_l2", "norm_max"];
pub const WHITENERS: &[&str] = &["whiten_pca", "whiten_zca", "whiten_cholesky"];

fn lin_params<F: Fl>(c: &LinCfg) -> LinearScalerParams<F> {
    match (c.name, c.kind) {
        ("standard", _) => LinearScaler::standard(),
        ("standard_no_mean", _) => LinearScaler::standard_no_mean(),
        ("standard_no_std", _) => LinearScaler::standard_no_std(),
        (_, Lin::Std(a, b)) => LinearScalerParams::new(ScalingMethod::Standard(a, b)),
        ("minmax_0_1", _) => LinearScaler::min_max(),
        (_, Lin::MinMax(lo, hi)) => LinearScaler::min_max_range(F::cast(lo), F::cast(hi)),
        (_, Lin::MaxAbs) => LinearScaler::max_abs(),
    }
}
fn norm_scaler(name: &str) -> NormScaler {
    match name {
        "norm_l1" => NormScaler::l1(),
        "norm_l2" => NormScaler::l2(),
        _ => NormScaler::max(),
    }
}
fn whitener(name: &str) -> Whitener {
    match name {
        "whiten_pca" => Whitener::pca(),
        "whiten_zca" => Whitener::zca(),
        _ => Whitener::cholesky(),
    }
}

pub fn f64of<F: Fl>(x: F) -> f64 {
    x.to_f64().unwrap()
}
pub fn arr<F: Fl>(m: &Mat, p: usize) -> Array2<F> {
    Array2::from_shape_fn((m.len(), p), |(i, j)| F::cast(m[i][j]))
}
/// The logical matrix `m` as an owned array with the strides of the requested memory layout
/// (`to_owned()` of a contiguous view keeps the view's memory order).
pub fn arr_l<F: Fl>(m: &Mat, p: usize, layout: &str) -> Array2<F> {
    use ndarray::{s, ShapeBuilder};
    let n = m.len();
    match layout {
        "col_major" => {
            let mut v = Vec::with_capacity(n * p);
            for j in 0..p {
                for r in m.iter() {
                    v.push(F::cast(r[j]));
                }
            }
            Array2::from_shape_vec((n, p).f(), v).unwrap()
        }
        "transposed_view" => {
            let fm: Array2<F> = Array2::from_shape_fn((p, n), |(j, i)| F::cast(m[i][j]));
            fm.t().to_owned()
        }
        "reversed_rows_view" => {
            let rev: Array2<F> = Array2::from_shape_fn((n, p), |(i, j)| F::cast(m[n - 1 - i][j]));
            rev.slice(s![..;-1, ..]).to_owned()
        }
        "front_rows_sliced" | "front_cols_sliced" | "front_both_sliced" => {
            // an OWNED array cut down in place at the front (`slice_move`): its first element sits at a
            // non-zero offset inside a larger allocation; everything outside the window is poison
            let (dr, dc) = match layout {
                "front_rows_sliced" => (2, 0),
                "front_cols_sliced" => (0, 1),
                _ => (2, 1),
            };
            let big: Array2<F> = Array2::from_shape_fn((n + dr, p + dc), |(i, j)| {
                if i >= dr && j >= dc {
                    F::cast(m[i - dr][j - dc])
                } else {
                    F::cast(-7777.25 - (i * 13 + j) as f64)
                }
            });
            big.slice_move(s![dr.., dc..])
        }
        "reversed_cols_view" => {
            // reversed FEATURE axis: contiguous in memory order, stride -1 along a row
            let rev: Array2<F> = Array2::from_shape_fn((n, p), |(i, j)| F::cast(m[i][p - 1 - j]));
            rev.slice(s![.., ..;-1]).to_owned()
        }
        _ => arr(m, p),
    }
}
pub fn seen<F: Fl>(a: &Array2<F>) -> Mat {
    a.rows().into_iter().map(|r| r.iter().map(|&x| f64of(x)).collect()).collect()
}
fn same_bits(a: f64, b: f64) -> bool {
    a.to_bits() == b.to_bits() || (a.is_nan() && b.is_nan())
}
pub fn distinct_rows(m: &Mat) -> usize {
    let mut seen: Vec<&Vec<f64>> = Vec::new();
    for r in m {
        if !seen.iter().any(|s| *s == r) {
            seen.push(r);
        }
    }
    seen.len()
}

fn case_json(case: &Case, cfg: &str, test: Option<&Mat>, at: Value) -> Value {
    let mut c = case.clone();
    c.cfg = Some(cfg.to_string());
    // keep the unseen matrices up to and including the failing one: the fitted object is shared by the
    // whole sequence, so a violation that depends on the calls made before it replays from the artefact
    let as_seen = |m: &Mat| -> Mat {
        if case.float == "f32" {
            m.iter().map(|r| r.iter().map(|&x| x as f32 as f64).collect()).collect()
        } else {
            m.clone()
        }
    };
    c.tests = match test {
        Some(t) => match case.tests.iter().position(|u| as_seen(u) == *t) {
            Some(i) => case.tests[..=i].to_vec(),
            None => vec![t.clone()],
        },
        None if case.kind == "builder" => case.tests.clone(),
        None => vec![],
    };
    let mut v = serde_json::to_value(&c).unwrap();
    v.as_object_mut().unwrap().insert("at".into(), at);
    v
}

struct ColStats {
    mean: f64,
    sd: f64,
    min: f64,
    max: f64,
    maxabs: f64,
    constant: bool,
}
fn colstats(x: &[f64]) -> ColStats {
    let n = x.len() as f64;
    let mean = x.iter().sum::<f64>() / n;
    let var = x.iter().map(|v| (v - mean) * (v - mean)).sum::<f64>() / n;
    let min = x.iter().cloned().fold(f64::INFINITY, f64::min);
    let max = x.iter().cloned().fold(f64::NEG_INFINITY, f64::max);
    let maxabs = x.iter().fold(0.0f64, |m, v| m.max(v.abs()));
    ColStats { mean, sd: var.sqrt(), min, max, maxabs, constant: min == max }
}

/// Selections of rows used by the row-wise map check.
fn selections(n: usize, full: bool, rows: &[usize]) -> Vec<(&'static str, Vec<usize>)> {
    let mut out: Vec<(&'static str, Vec<usize>)> = Vec::new();
    if !rows.is_empty() {
        let rows: Vec<usize> = rows.iter().cloned().filter(|&i| i < n).collect();
        for &i in &rows {
            out.push(("single_row", vec![i]));
        }
        out.push(("selection", rows.clone()));
        out.push(("selection", rows.iter().rev().cloned().collect()));
        out.push(("permutation", (0..n).rev().collect()));
        return out;
    }
    for i in 0..n {
        out.push(("single_row", vec![i]));
    }
    if full && n <= 4 {
        for perm in lvmc_core::enumerate::permutations(n) {
            out.push(("permutation", perm));
        }
        for mask in 0u32..(1u32 << n) {
            let s: Vec<usize> = (0..n).filter(|i| mask >> i & 1 == 1).collect();
            out.push(("selection", s));
        }
    } else if full {
        out.push(("permutation", (0..n).rev().collect()));
        out.push(("permutation", (0..n).map(|i| (i + 1) % n).collect()));
        out.push(("selection", (1..n).collect()));
        out.push(("selection", (0..n).step_by(2).collect()));
        out.push(("selection", vec![]));
    } else if n >= 2 {
        out.push(("permutation", (0..n).rev().collect()));
    }
    out
}

/// `transform(X)[i] == transform(X[i..i+1])`, and transform commutes with row permutations and row
/// selections of X — bit for bit.
fn rowwise<F: Fl>(
    prefix: &str,
    x: &Array2<F>,
    full_out: &Array2<F>,
    tf: &dyn Fn(Array2<F>) -> Array2<F>,
    case: &Case,
    mk: &dyn Fn(Value) -> Value,
    v: &mut Vec<Violation>,
    cnt: &mut Cnt,
) {
    let n = x.nrows();
    let p_out = full_out.ncols();
    for (what, sel) in selections(n, case.full_rowwise, &case.rowwise_rows) {
        let sub = x.select(Axis(0), &sel);
        let out = match guarded(|| tf(sub)) {
            Ok(o) => o,
            Err(pm) => {
                v.push(Violation::new(
                    format!("{}.rowwise.panic", prefix),
                    format!("transform of the row {} {:?} of a matrix it transforms as a whole panicked: {}", what, sel, pm),
                    mk(json!({"op": "rowwise", "what": what, "rows": sel})),
                ));
                continue;
            }
        };
        cnt.bump("rowwise_comparisons_bitwise", 1);
        if out.nrows() != sel.len() || (out.ncols() != p_out && !(sel.is_empty() && out.is_empty())) {
            v.push(Violation::new(
                format!("{}.rowwise.shape", prefix),
                format!("transform of rows {:?} has shape {:?}, expected ({}, {})", sel, out.dim(), sel.len(), p_out),
                mk(json!({"op": "rowwise", "what": what, "rows": sel})),
            ));
            continue;
        }
        'cmp: for (k, &i) in sel.iter().enumerate() {
            for j in 0..p_out {
                let a = f64of(out[(k, j)]);
                let b = f64of(full_out[(i, j)]);
                if !same_bits(a, b) {
                    v.push(Violation::new(
                        format!("{}.not_rowwise.{}", prefix, what),
                        format!(
                            "transform of rows {:?} alone gives {:e} at (row {}, col {}) but transforming the whole matrix gives {:e} for that row (not a fixed row-by-row map)",
                            sel, a, i, j, b
                        ),
                        mk(json!({"op": "rowwise", "what": what, "rows": sel})),
                    ));
                    break 'cmp;
                }
            }
        }
    }
}

// ------------------------------------------------------------------------------------------------
// linear scalers
// ------------------------------------------------------------------------------------------------

fn lin_reference<F: Fl>(kind: Lin, off: f64, sc: f64, x: f64) -> (f64, f64) {
    match kind {
        Lin::Std(with_mean, _) => {
            let d = (x - off) * sc;
            let mag = (x.abs() + off.abs()) * sc.abs();
            if with_mean {
                (d, mag)
            } else {
                (d + off, mag + off.abs())
            }
        }
        Lin::MinMax(lo, hi) => {
            let lo_f = F::cast(lo);
            let r = f64of(F::cast(hi) - lo_f);
            let lo = f64of(lo_f);
            ((x - off) * sc * r + lo, (x.abs() + off.abs()) * sc.abs() * r.abs() + lo.abs())
        }
        Lin::MaxAbs => ((x - off) * sc, (x.abs() + off.abs()) * sc.abs()),
    }
}

fn run_linear<F: Fl>(
    c: &LinCfg,
    case: &Case,
    a: &Array2<F>,
    xs: &Mat,
    tests: &[(Array2<F>, Mat)],
    in_domain: bool,
    v: &mut Vec<Violation>,
    cnt: &mut Cnt,
) {
    let n = xs.len();
    let p = case.p;
    let fam = c.fam;
    let flipped = matches!(c.kind, Lin::MinMax(lo, hi) if lo > hi);
    let mk = |test: Option<&Mat>, at: Value| case_json(case, c.name, test, at);
    cnt.evals += 1;

    let params = lin_params::<F>(c);
    let ds = DatasetBase::from(a.view());
    let fitted = guarded(|| params.fit(&ds));
    let scaler = match fitted {
        Err(pm) => {
            v.push(Violation::new(
                format!("linear_scaler.{}.fit.panic", fam),
                format!("{}: fit on a {}x{} matrix panicked: {}", c.name, n, p, pm),
                mk(None, json!({"op": "fit"})),
            ));
            return;
        }
        Ok(Err(e)) => {
            if n == 0 || flipped {
                cnt.bump("fit_errors_as_documented", 1);
                cnt.nontrivial += 1;
            } else {
                v.push(Violation::new(
                    format!("linear_scaler.{}.fit.unexpected_error", fam),
                    format!("{}: fit on a valid {}x{} matrix returned Err({})", c.name, n, p, e),
                    mk(None, json!({"op": "fit"})),
                ));
            }
            return;
        }
        Ok(Ok(s)) => {
            if n == 0 {
                v.push(Violation::new(
                    format!("linear_scaler.{}.empty_training_accepted", fam),
                    format!("{}: fit on an empty 0x{} matrix returned Ok instead of an error", c.name, p),
                    mk(None, json!({"op": "fit"})),
                ));
                return;
            }
            if flipped {
                v.push(Violation::new(
                    "linear_scaler.minmax.flipped_range_accepted".to_string(),
                    format!("{}: fit with min > max returned Ok instead of an error", c.name),
                    mk(None, json!({"op": "fit"})),
                ));
                return;
            }
            s
        }
    };
    let off: Vec<f64> = scaler.offsets().iter().map(|&x| f64of(x)).collect();
    let sc: Vec<f64> = scaler.scales().iter().map(|&x| f64of(x)).collect();
    if off.len() != p || sc.len() != p || off.iter().chain(sc.iter()).any(|t| !t.is_finite()) {
        v.push(Violation::new(
            format!("linear_scaler.{}.accessors_malformed", fam),
            format!("{}: offsets {:?} / scales {:?} are not {} finite numbers each", c.name, off, sc, p),
            mk(None, json!({"op": "accessors"})),
        ));
        return;
    }
    let tf = |m: Array2<F>| -> Array2<F> { scaler.transform(m) };
    let range_factor = match c.kind {
        Lin::MinMax(lo, hi) => (hi - lo).abs(),
        _ => 1.0,
    };

    // ---------------- the training matrix ----------------
    let z = match guarded(|| tf(a.clone())) {
        Ok(z) => z,
        Err(pm) => {
            v.push(Violation::new(
                format!("linear_scaler.{}.transform.panic", fam),
                format!("{}: transform of the training matrix panicked: {}", c.name, pm),
                mk(None, json!({"op": "transform_train"})),
            ));
            return;
        }
    };
    let zs = seen(&z);
    if z.dim() != a.dim() {
        v.push(Violation::new(
            format!("linear_scaler.{}.transform.shape", fam),
            format!("{}: transform changed the shape {:?} -> {:?}", c.name, a.dim(), z.dim()),
            mk(None, json!({"op": "transform_train"})),
        ));
        return;
    }

    if !in_domain {
        cnt.ood += 1;
    } else {
        let mut any_nonconstant = false;
        for j in 0..p {
            let x: Vec<f64> = xs.iter().map(|r| r[j]).collect();
            let zc: Vec<f64> = zs.iter().map(|r| r[j]).collect();
            let st = colstats(&x);
            let at = |what: &str| json!({"op": "postcondition", "column": j, "what": what});
            if zc.iter().any(|t| !t.is_finite()) {
                v.push(Violation::new(
                    format!("linear_scaler.{}.nonfinite_output", fam),
                    format!("{}: column {} = {:?} is transformed to {:?}", c.name, j, x, zc),
                    mk(None, at("finite")),
                ));
                continue;
            }
            let zst = colstats(&zc);
            if st.constant {
                cnt.bump("constant_columns_checked", 1);
            } else {
                any_nonconstant = true;
                cnt.bump("nonconstant_columns_checked", 1);
            }
            match c.kind {
                Lin::Std(with_mean, with_std) => {
                    if st.constant {
                        // "constant columns are only centred" (no-mean variants keep the mean)
                        let want = if with_mean { 0.0 } else { x[0] };
                        let tol = 8.0 * F::EPS * st.maxabs + 1e-300;
                        if zc.iter().any(|t| (t - want).abs() > tol) {
                            v.push(Violation::new(
                                "linear_scaler.standard.constant_column_not_only_centred".to_string(),
                                format!("{}: constant column {} = {:?} is transformed to {:?}, expected all {}", c.name, j, x, zc, want),
                                mk(None, at("constant column")),
                            ));
                        }
                        continue;
                    }
                    if !(st.sd > 0.0) {
                        cnt.indet += 1;
                        continue;
                    }
                    let cond = st.maxabs / st.sd;
                    // accumulation over n rows in the subject's float type: the bound grows with n
                    let err = 16.0 * F::EPS * cond * (n as f64 / 8.0).max(1.0);
                    let target_mean = if with_mean { 0.0 } else { st.mean };
                    let out_sd = if with_std { 1.0 } else { st.sd };
                    let subeps = with_std && st.sd <= F::EPS * (1.0 + 1e-9) && sc[j] == 1.0;
                    if subeps {
                        cnt.bump("sub_epsilon_spread_columns_seen", 1);
                    }
                    if err > 0.05 {
                        // spread within a few ulps of the values themselves: no float code can do better
                        cnt.indet += 1;
                        cnt.bump("ill_conditioned_columns_indeterminate", 1);
                        continue;
                    }
                    let tol_m = out_sd * (F::REL + err) + 8.0 * F::EPS * target_mean.abs();
                    if (zst.mean - target_mean).abs() > tol_m {
                        let sig = if with_mean { "linear_scaler.standard.mean_not_zero" } else { "linear_scaler.standard.mean_not_kept" };
                        v.push(Violation::new(
                            sig.to_string(),
                            format!("{}: column {} = {:?} -> {:?}: mean {:e}, expected {:e} (tolerance {:e})", c.name, j, x, zc, zst.mean, target_mean, tol_m),
                            mk(None, at("mean")),
                        ));
                    }
                    let tol_v = F::REL + err + if with_std && !with_mean { 8.0 * F::EPS * (st.mean.abs() + 1.0) } else { 0.0 };
                    let ratio = (zst.sd / out_sd) * (zst.sd / out_sd);
                    if (ratio - 1.0).abs() > tol_v {
                        let sig = if subeps {
                            SIG_SUBEPS_STD
                        } else if with_std {
                            "linear_scaler.standard.not_unit_variance"
                        } else {
                            "linear_scaler.standard.spread_not_kept"
                        };
                        v.push(Violation::new(
                            sig.to_string(),
                            format!(
                                "{} ({}): column {} = {:?} (population std {:e}, scale() = {:e}) -> {:?}: population variance {:e}, expected {:e} (relative tolerance {:e})",
                                c.name, F::NAME, j, x, st.sd, sc[j], zc, zst.sd * zst.sd, out_sd * out_sd, tol_v
                            ),
                            mk(None, at("variance")),
                        ));
                    }
                }
                Lin::MinMax(lo, hi) => {
                    if st.constant {
                        continue; // nothing is stated for constant columns (finite: checked above)
                    }
                    let (lo, hi) = (f64of(F::cast(lo)), f64of(F::cast(hi)));
                    let subeps = st.max - st.min <= F::EPS * (1.0 + 1e-9) && sc[j] == 1.0;
                    if subeps {
                        cnt.bump("sub_epsilon_spread_columns_seen", 1);
                    }
                    let tol = F::REL * (hi - lo).abs() + 8.0 * F::EPS * lo.abs().max(hi.abs());
                    if (zst.min - lo).abs() > tol || (zst.max - hi).abs() > tol {
                        let sig = if subeps { SIG_SUBEPS_MINMAX } else { "linear_scaler.minmax.range_end_not_attained" };
                        v.push(Violation::new(
                            sig.to_string(),
                            format!(
                                "{} ({}): non-constant column {} = {:?} (max - min = {:e}, scale() = {:e}) -> {:?}: attains [{:e}, {:e}], expected both ends of [{}, {}]",
                                c.name, F::NAME, j, x, st.max - st.min, sc[j], zc, zst.min, zst.max, lo, hi
                            ),
                            mk(None, at("range")),
                        ));
                    }
                }
                Lin::MaxAbs => {
                    if st.maxabs == 0.0 {
                        continue; // all-zero column: nothing stated (finite: checked above)
                    }
                    let subeps = st.maxabs <= F::EPS * (1.0 + 1e-9) && sc[j] == 1.0;
                    if subeps {
                        cnt.bump("sub_epsilon_spread_columns_seen", 1);
                    }
                    if (zst.maxabs - 1.0).abs() > F::REL + 4.0 * F::EPS {
                        let sig = if subeps { SIG_SUBEPS_MAXABS } else { "linear_scaler.maxabs.max_abs_not_one" };
                        v.push(Violation::new(
                            sig.to_string(),
                            format!(
                                "{} ({}): non-zero column {} = {:?} (max |x| = {:e}, scale() = {:e}) -> {:?}: max |z| = {:e}, expected 1",
                                c.name, F::NAME, j, x, st.maxabs, sc[j], zc, zst.maxabs
                            ),
                            mk(None, at("max abs")),
                        ));
                    }
                }
            }
        }
        if any_nonconstant {
            cnt.nontrivial += 1;
        }
    }

    // ---------------- fixed affine row-wise map: training matrix and unseen matrices ----------------
    let mut mats: Vec<(Option<&Mat>, &Array2<F>, &Mat, Option<Array2<F>>)> = vec![(None, a, xs, Some(z))];
    for (tb, ts) in tests {
        mats.push((Some(ts), tb, ts, None));
    }
    for (tag, xb, xsb, zb) in mats {
        if tag.is_some() {
            cnt.evals += 1;
            cnt.nontrivial += 1;
        }
        let zb = match zb {
            Some(z) => z,
            None => match guarded(|| tf(xb.clone())) {
                Ok(z) => z,
                Err(pm) => {
                    v.push(Violation::new(
                        format!("linear_scaler.{}.transform.panic", fam),
                        format!("{}: transform of an unseen {}x{} matrix panicked: {}", c.name, xsb.len(), p, pm),
                        mk(tag, json!({"op": "transform_unseen"})),
                    ));
                    continue;
                }
            },
        };
        if zb.dim() != xb.dim() {
            v.push(Violation::new(
                format!("linear_scaler.{}.transform.shape", fam),
                format!("{}: transform changed the shape {:?} -> {:?}", c.name, xb.dim(), zb.dim()),
                mk(tag, json!({"op": "transform_unseen"})),
            ));
            continue;
        }
        'aff: for i in 0..xsb.len() {
            for j in 0..p {
                let (zr, mag) = lin_reference::<F>(c.kind, off[j], sc[j], xsb[i][j]);
                let got = f64of(zb[(i, j)]);
                // 8 * TINY * (1 + range): a subnormal intermediate loses up to half a subnormal ulp,
                // which the min-max range map multiplies by (max - min)
                let tol = 8.0 * F::EPS * mag + 8.0 * F::TINY * (1.0 + range_factor) + 1e-300;
                if !((got - zr).abs() <= tol) {
                    v.push(Violation::new(
                        format!("linear_scaler.{}.transform_differs_from_offsets_scales_map", fam),
                        format!(
                            "{}: x = {:e} with offsets()[{}] = {:e}, scales()[{}] = {:e} must map to {:e}, transform gives {:e} (row {}, tolerance {:e})",
                            c.name, xsb[i][j], j, off[j], j, sc[j], zr, got, i, tol
                        ),
                        mk(tag, json!({"op": "affine", "row": i, "column": j})),
                    ));
                    break 'aff;
                }
            }
        }
        let prefix = format!("linear_scaler.{}", fam);
        rowwise(&prefix, xb, &zb, &tf, case, &|at| mk(tag, at), v, cnt);
    }
}

// ------------------------------------------------------------------------------------------------
// norm scalers
// ------------------------------------------------------------------------------------------------

/// Reference norm in f64; the l2 norm is computed on the row scaled by its largest element so that
/// neither 1e300 nor 1e-310 entries overflow / underflow in the reference itself.
fn ref_norm(kind: &str, r: &[f64]) -> f64 {
    let m = r.iter().fold(0.0f64, |m, x| m.max(x.abs()));
    match kind {
        "norm_l1" => r.iter().map(|x| x.abs()).sum(),
        "norm_l2" => {
            if m == 0.0 || !m.is_finite() {
                m
            } else {
                m * r.iter().map(|x| (x / m) * (x / m)).sum::<f64>().sqrt()
            }
        }
        _ => m,
    }
}

fn run_norm<F: Fl>(kind: &'static str, case: &Case, mats: &[(Option<&Mat>, &Array2<F>, &Mat)], v: &mut Vec<Violation>, cnt: &mut Cnt) {
    let p = case.p;
    let k = &kind[5..];
    let scaler = norm_scaler(kind);
    let tf = |m: Array2<F>| -> Array2<F> { scaler.transform(m) };
    for &(tag, xb, xsb) in mats {
        cnt.evals += 1;
        let mk = |at: Value| case_json(case, kind, tag, at);
        let z = match guarded(|| tf(xb.clone())) {
            Ok(z) => z,
            Err(pm) => {
                v.push(Violation::new(format!("norm_scaler.{}.transform.panic", k), format!("{}: transform of a {}x{} matrix panicked: {}", kind, xsb.len(), p, pm), mk(json!({"op": "transform"}))));
                continue;
            }
        };
        if z.dim() != xb.dim() {
            v.push(Violation::new(format!("norm_scaler.{}.transform.shape", k), format!("{}: shape {:?} -> {:?}", kind, xb.dim(), z.dim()), mk(json!({"op": "transform"}))));
            continue;
        }
        let zs = seen(&z);
        let mut nonzero_rows = 0;
        for (i, r) in xsb.iter().enumerate() {
            let zr = &zs[i];
            let zero = r.iter().all(|&x| x == 0.0);
            if zero {
                cnt.bump("all_zero_rows_checked", 1);
            } else {
                nonzero_rows += 1;
            }
            if zr.iter().any(|t| !t.is_finite()) {
                let sig = if zero && zr.iter().all(|t| t.is_nan()) { SIG_ZERO_ROW.to_string() } else { format!("norm_scaler.{}.nonfinite_output", k) };
                v.push(Violation::new(
                    sig,
                    format!("{} ({}): row {} = {:?} is transformed to {:?}; the statement requires all output finite", kind, F::NAME, i, r, zr),
                    mk(json!({"op": "postcondition", "row": i, "what": "finite"})),
                ));
                continue;
            }
            if zero {
                continue;
            }
            let nr = ref_norm(kind, r);
            let nz = ref_norm(kind, zr);
            let mut tol = F::REL + 8.0 * F::EPS * p as f64;
            if kind == "norm_l2" {
                // the subject's l2 norm is sqrt(sum x^2) in its own float type: the sum of squares as that
                // type computes it (same operations, same order)
                let ss = f64of(r.iter().fold(F::zero(), |acc, &x| {
                    let t = F::cast(x);
                    acc + t * t
                }));
                let untouched = zr.iter().zip(r.iter()).all(|(a, b)| same_bits(*a, *b));
                if ss == 0.0 {
                    cnt.bump("l2_rows_whose_squares_underflow", 1);
                    if untouched {
                        v.push(Violation::new(
                            SIG_L2_UNDERFLOW.to_string(),
                            format!(
                                "{} ({}): non-zero row {} = {:?} is returned unchanged (l2 norm {:e}, not 1): the squares underflow to 0 in {}, so the computed norm is 0 and the row is treated as all-zero",
                                kind, F::NAME, i, r, nz, F::NAME
                            ),
                            mk(json!({"op": "postcondition", "row": i, "what": "unit norm"})),
                        ));
                        continue;
                    }
                } else if !ss.is_finite() {
                    cnt.bump("l2_rows_whose_squares_overflow", 1);
                    if zr.iter().all(|t| *t == 0.0) {
                        v.push(Violation::new(
                            SIG_L2_OVERFLOW.to_string(),
                            format!(
                                "{} ({}): non-zero row {} = {:?} is transformed to all zeros (l2 norm 0, not 1): the squares overflow to inf in {}, so every element is divided by inf",
                                kind, F::NAME, i, r, F::NAME
                            ),
                            mk(json!({"op": "postcondition", "row": i, "what": "unit norm"})),
                        ));
                        continue;
                    }
                } else if ss < F::MINPOS / F::EPS {
                    // squares in or next to the subnormal range carry few significant bits: relative error
                    // bound of the norm = p * (half a subnormal ulp) / sum of squares / 2
                    let bound = p as f64 * F::TINY / ss;
                    if bound > 0.01 {
                        cnt.indet += 1;
                        cnt.bump("l2_rows_with_subnormal_squares_indeterminate", 1);
                        continue;
                    }
                    tol += bound;
                }
            }
            if !((nz - 1.0).abs() <= tol) {
                v.push(Violation::new(
                    format!("norm_scaler.{}.row_norm_not_one", k),
                    format!("{} ({}): non-zero row {} = {:?} -> {:?} has {} norm {:e}, expected 1", kind, F::NAME, i, r, zr, k, nz),
                    mk(json!({"op": "postcondition", "row": i, "what": "unit norm"})),
                ));
                continue;
            }
            for j in 0..p {
                let want = r[j] / nr;
                if !((zr[j] - want).abs() <= (8.0 * F::EPS * (p as f64) + tol - F::REL) * want.abs() + 4.0 * F::TINY + 1e-300) {
                    v.push(Violation::new(
                        format!("norm_scaler.{}.wrong_value", k),
                        format!("{} ({}): row {} = {:?}: element {} is {:e}, expected x / norm = {:e}", kind, F::NAME, i, r, j, zr[j], want),
                        mk(json!({"op": "postcondition", "row": i, "column": j, "what": "x / norm"})),
                    ));
                    break;
                }
            }
        }
        if nonzero_rows > 0 {
            cnt.nontrivial += 1;
        }
        let prefix = format!("norm_scaler.{}", k);
        rowwise(&prefix, xb, &z, &tf, case, &mk, v, cnt);
    }
}

// ------------------------------------------------------------------------------------------------
// whiteners
// ------------------------------------------------------------------------------------------------

pub struct WhitenDomain {
    pub full_rank: bool,
    pub lambda: Vec<f64>,
    pub cond: f64,
    pub maxabs: f64,
}
pub fn whiten_domain(xs: &Mat, p: usize) -> WhitenDomain {
    let n = xs.len();
    let maxabs = xs.iter().flatten().fold(0.0f64, |m, v| m.max(v.abs()));
    if n < 2 || n <= p {
        return WhitenDomain { full_rank: false, lambda: vec![], cond: f64::INFINITY, maxabs };
    }
    let mu = refmath::col_means(xs);
    let centred: Mat = xs.iter().map(|r| r.iter().zip(&mu).map(|(x, m)| x - m).collect()).collect();
    // column-equilibrated rank test (so that a badly scaled but independent column is not called dependent)
    let norms: Vec<f64> = (0..p).map(|j| centred.iter().map(|r| r[j] * r[j]).sum::<f64>().sqrt()).collect();
    if norms.iter().any(|&s| !(s > 0.0)) {
        return WhitenDomain { full_rank: false, lambda: vec![], cond: f64::INFINITY, maxabs };
    }
    let eq: Mat = centred.iter().map(|r| r.iter().zip(&norms).map(|(x, s)| x / s).collect()).collect();
    let rank = refmath::rank(&eq, 1e-9);
    let cov = refmath::covariance(xs, 1.0);
    let (lambda, _) = refmath::jacobi_eig(&cov);
    let lmin = *lambda.last().unwrap();
    let lmax = lambda[0];
    if rank < p || !(lmin > 0.0) || !(lmax > 0.0) {
        return WhitenDomain { full_rank: false, lambda, cond: f64::INFINITY, maxabs };
    }
    WhitenDomain { full_rank: true, cond: lmax / lmin, lambda, maxabs }
}

/// Classification aid only (never a verdict): relative reconstruction residual max|A - U S V^t| / max|A|
/// of linfa-linalg's SVD — the routine `Whitener::fit` calls — on the very matrix the subject hands to
/// it (centred records for PCA, their covariance for ZCA), in the subject's float type. A backward
/// stable SVD gives a few eps_F.
fn dependency_svd_residual<F: Fl>(a: &Array2<F>, covariance: bool) -> Option<f64> {
    use linfa_linalg::svd::SVD;
    let n = a.nrows();
    let mean = a.mean_axis(Axis(0))?;
    let xc = a - &mean;
    let input: Array2<F> = if covariance { xc.t().dot(&xc) / F::cast(n - 1) } else { xc };
    let r = guarded(|| input.svd(true, true)).ok()?.ok()?;
    let (u, s, vt) = (r.0?, r.1, r.2?);
    let rec = u.dot(&Array2::from_diag(&s)).dot(&vt);
    let amax = input.iter().fold(0.0f64, |m, x| m.max(f64of(*x).abs()));
    let res = rec.iter().zip(input.iter()).fold(0.0f64, |m, (x, y)| m.max((f64of(*x) - f64of(*y)).abs()));
    if amax > 0.0 && res.is_finite() {
        Some(res / amax)
    } else {
        None
    }
}

fn run_whiten<F: Fl>(
    name: &'static str,
    case: &Case,
    a: &Array2<F>,
    xs: &Mat,
    tests: &[(Array2<F>, Mat)],
    dom: &WhitenDomain,
    v: &mut Vec<Violation>,
    cnt: &mut Cnt,
) {
    let n = xs.len();
    let p = case.p;
    let m = &name[7..];
    let mk = |test: Option<&Mat>, at: Value| case_json(case, name, test, at);
    cnt.evals += 1;
    if n > 0 && !dom.full_rank {
        // Nothing is stated for rank-deficient training data (n <= p included), so the subject is not
        // even called: Whitener::zca().fit on a single row of >= 3 columns feeds a NaN covariance
        // (division by n - 1 = 0) to linfa-linalg's SVD, whose QR loop has no iteration cap and never
        // returns (observed while building this check; outside the stated domain, reported as a note).
        cnt.ood += 1;
        cnt.bump("whitening_rank_deficient_training_skipped", 1);
        return;
    }
    let ds = DatasetBase::from(a.view());
    let w = whitener(name);
    let fitted: Result<Result<FittedWhitener<F>, _>, String> = guarded(|| w.fit(&ds));
    if n == 0 {
        match fitted {
            Ok(Err(_)) => {
                cnt.bump("fit_errors_as_documented", 1);
                cnt.nontrivial += 1;
            }
            Ok(Ok(_)) => v.push(Violation::new(format!("whitener.{}.empty_training_accepted", m), format!("{}: fit on an empty 0x{} matrix returned Ok", name, p), mk(None, json!({"op": "fit"})))),
            Err(pm) => v.push(Violation::new(format!("whitener.{}.empty_training_panic", m), format!("{}: fit on an empty 0x{} matrix panicked instead of returning an error: {}", name, p, pm), mk(None, json!({"op": "fit"})))),
        }
        return;
    }
    let tol = if dom.full_rank {
        F::WBASE + (64.0 * F::EPS * dom.cond + 16.0 * F::EPS * dom.maxabs / dom.lambda.last().unwrap().sqrt()) * (n as f64 / 8.0).max(1.0)
    } else {
        f64::INFINITY
    };
    let verdict = dom.full_rank && tol <= 0.05;
    if !verdict {
        cnt.indet += 1;
        cnt.bump("whitening_ill_conditioned_indeterminate", 1);
    }
    let fw = match fitted {
        Ok(Ok(f)) => f,
        Ok(Err(e)) => {
            if verdict {
                v.push(Violation::new(
                    format!("whitener.{}.fit.unexpected_error", m),
                    format!("{} ({}): fit on a full-rank {}x{} matrix (covariance condition number {:e}) returned Err({})", name, F::NAME, n, p, dom.cond, e),
                    mk(None, json!({"op": "fit"})),
                ));
            } else {
                cnt.bump("whitening_ill_conditioned_fit_err", 1);
            }
            return;
        }
        Err(pm) => {
            if verdict {
                v.push(Violation::new(
                    format!("whitener.{}.fit.panic", m),
                    format!("{} ({}): fit on a full-rank {}x{} matrix panicked: {}", name, F::NAME, n, p, pm),
                    mk(None, json!({"op": "fit"})),
                ));
            } else {
                cnt.bump("whitening_ill_conditioned_fit_panic", 1);
            }
            return;
        }
    };
    let t: Mat = seen(&fw.transformation_matrix().to_owned());
    let mean: Vec<f64> = fw.mean().iter().map(|&x| f64of(x)).collect();
    let finite = t.iter().flatten().chain(mean.iter()).all(|x| x.is_finite());
    if t.len() != p || t.iter().any(|r| r.len() != p) || mean.len() != p || (verdict && !finite) {
        v.push(Violation::new(
            format!("whitener.{}.accessors_malformed", m),
            format!("{}: transformation_matrix() {:?} / mean() {:?} are not a finite {}x{} matrix and {}-vector", name, t, mean, p, p, p),
            mk(None, json!({"op": "accessors"})),
        ));
        return;
    }
    if !finite {
        return; // ill-conditioned beyond the verdict threshold: nothing demanded
    }
    let tf = |x: Array2<F>| -> Array2<F> { fw.transform(x) };
    let z = match guarded(|| tf(a.clone())) {
        Ok(z) => z,
        Err(pm) => {
            v.push(Violation::new(format!("whitener.{}.transform.panic", m), format!("{}: transform of the training matrix panicked: {}", name, pm), mk(None, json!({"op": "transform_train"}))));
            return;
        }
    };
    if z.dim() != a.dim() {
        v.push(Violation::new(format!("whitener.{}.transform.shape", m), format!("{}: shape {:?} -> {:?}", name, a.dim(), z.dim()), mk(None, json!({"op": "transform_train"}))));
        return;
    }
    let zs = seen(&z);

    if verdict {
        cnt.nontrivial += 1;
        cnt.bump("whitening_full_rank_checked", 1);
        if zs.iter().flatten().any(|x| !x.is_finite()) {
            v.push(Violation::new(format!("whitener.{}.nonfinite_output", m), format!("{}: training matrix {:?} is whitened to {:?}", name, xs, zs), mk(None, json!({"op": "postcondition"}))));
        } else {
            let cz = refmath::covariance(&zs, 1.0);
            let mut worst = 0.0f64;
            for i in 0..p {
                for j in 0..p {
                    worst = worst.max((cz[i][j] - if i == j { 1.0 } else { 0.0 }).abs());
                }
            }
            if !(worst <= tol) {
                // closed forms of the two absolute clamps in Whitener::fit
                let nm1 = (n - 1) as f64;
                let floor = f64of(F::cast(1e-8));
                let predicted: Option<(Vec<f64>, &str)> = match m {
                    "pca" => Some((
                        dom.lambda.iter().map(|l| { let s = (l * nm1).sqrt(); let r = s / s.max(floor); r * r }).collect(),
                        SIG_PCA_CLAMP,
                    )),
                    "zca" => Some((dom.lambda.iter().map(|l| { let i = (1.0 / l.sqrt()).max(floor); l * i * i }).collect(), SIG_ZCA_CLAMP)),
                    _ => None,
                };
                let mut sig = format!("whitener.{}.covariance_not_identity", m);
                if m != "cholesky" {
                    if let Some(r) = dependency_svd_residual::<F>(a, m == "zca") {
                        if r > 64.0 * F::EPS {
                            sig = format!("whitener.{}.inaccurate_svd_of_linfa_linalg", m);
                            cnt.bump("whitening_violations_with_inaccurate_dependency_svd", 1);
                        }
                    }
                }
                if let Some((mut pred, narrow)) = predicted {
                    if pred.iter().any(|x| (x - 1.0).abs() > tol) {
                        let (mut obs, _) = refmath::jacobi_eig(&cz);
                        obs.sort_by(|a, b| a.partial_cmp(b).unwrap());
                        pred.sort_by(|a, b| a.partial_cmp(b).unwrap());
                        if obs.iter().zip(&pred).all(|(o, q)| (o - q).abs() <= 1e-3 * q.abs().max(1.0) + tol) {
                            sig = narrow.to_string();
                        }
                    }
                }
                v.push(Violation::new(
                    sig,
                    format!(
                        "{} ({}): full-rank {}x{} training matrix (covariance eigenvalues {:?}) is whitened to data with sample covariance {:?}: max deviation from identity {:e} (tolerance {:e})",
                        name, F::NAME, n, p, dom.lambda, cz, worst, tol
                    ),
                    mk(None, json!({"op": "postcondition", "what": "identity covariance"})),
                ));
            }
        }
    }

    let mut mats: Vec<(Option<&Mat>, &Array2<F>, &Mat, Option<Array2<F>>)> = vec![(None, a, xs, Some(z))];
    for (tb, ts) in tests {
        mats.push((Some(ts), tb, ts, None));
    }
    for (tag, xb, xsb, zb) in mats {
        if tag.is_some() {
            cnt.evals += 1;
            cnt.nontrivial += 1;
        }
        let zb = match zb {
            Some(z) => z,
            None => match guarded(|| tf(xb.clone())) {
                Ok(z) => z,
                Err(pm) => {
                    v.push(Violation::new(format!("whitener.{}.transform.panic", m), format!("{}: transform of an unseen {}x{} matrix panicked: {}", name, xsb.len(), p, pm), mk(tag, json!({"op": "transform_unseen"}))));
                    continue;
                }
            },
        };
        if zb.dim() != xb.dim() {
            v.push(Violation::new(format!("whitener.{}.transform.shape", m), format!("{}: shape {:?} -> {:?}", name, xb.dim(), zb.dim()), mk(tag, json!({"op": "transform_unseen"}))));
            continue;
        }
        'aff: for i in 0..xsb.len() {
            for r in 0..p {
                let mut zr = 0.0;
                let mut mag = 0.0;
                for k in 0..p {
                    zr += t[r][k] * (xsb[i][k] - mean[k]);
                    mag += t[r][k].abs() * (xsb[i][k].abs() + mean[k].abs());
                }
                let got = f64of(zb[(i, r)]);
                let tol = 8.0 * F::EPS * (p as f64 + 1.0) * mag + 1e-300;
                if !((got - zr).abs() <= tol) {
                    v.push(Violation::new(
                        format!("whitener.{}.transform_differs_from_matrix_mean_map", m),
                        format!(
                            "{}: row {} = {:?} with mean() = {:?} and transformation_matrix() row {} = {:?} must map to {:e}, transform gives {:e} (tolerance {:e})",
                            name, i, xsb[i], mean, r, t[r], zr, got, tol
                        ),
                        mk(tag, json!({"op": "affine", "row": i, "column": r})),
                    ));
                    break 'aff;
                }
            }
        }
        let prefix = format!("whitener.{}", m);
        rowwise(&prefix, xb, &zb, &tf, case, &|at| mk(tag, at), v, cnt);
    }
}

// ------------------------------------------------------------------------------------------------
// dataset form: targets, weights, feature and target names pass through unchanged
// ------------------------------------------------------------------------------------------------

#[derive(Clone)]
enum Fitted<F: Fl> {
    Lin(LinearScaler<F>),
    Norm(NormScaler),
    Wh(FittedWhitener<F>),
}
impl<F: Fl> Fitted<F> {
    fn fit<D: Data<Elem = F>, T: AsTargets>(name: &str, ds: &DatasetBase<ArrayBase<D, Ix2>, T>) -> Result<Fitted<F>, String> {
        if let Some(c) = LINS.iter().find(|c| c.name == name) {
            return lin_params::<F>(c).fit(ds).map(Fitted::Lin).map_err(|e| e.to_string());
        }
        if NORMS.contains(&name) {
            return Ok(Fitted::Norm(norm_scaler(name)));
        }
        whitener(name).fit(ds).map(Fitted::Wh).map_err(|e| e.to_string())
    }
    fn accessor_bits(&self) -> Vec<u64> {
        match self {
            Fitted::Lin(s) => s.offsets().iter().chain(s.scales().iter()).map(|&x| f64of(x).to_bits()).collect(),
            Fitted::Norm(_) => vec![],
            Fitted::Wh(s) => s.transformation_matrix().iter().chain(s.mean().iter()).map(|&x| f64of(x).to_bits()).collect(),
        }
    }
    fn tf_arr(&self, x: Array2<F>) -> Array2<F> {
        match self {
            Fitted::Lin(s) => s.transform(x),
            Fitted::Norm(s) => s.transform(x),
            Fitted::Wh(s) => s.transform(x),
        }
    }
    fn tf_ds<D: Data<Elem = F>, T: AsTargets>(&self, ds: DatasetBase<ArrayBase<D, Ix2>, T>) -> DatasetBase<Array2<F>, T> {
        match self {
            Fitted::Lin(s) => s.transform(ds),
            Fitted::Norm(s) => s.transform(ds),
            Fitted::Wh(s) => s.transform(ds),
        }
    }
}

/// What the dataset was built from, as plain logical values (never read back from the dataset).
struct DsExpect<E, I: ndarray::Dimension> {
    targets: ndarray::Array<E, I>,
    weights: Option<Vec<f32>>,
    fnames: Vec<String>,
    tnames: Vec<String>,
}

fn check_ds<F: Fl, D: Data<Elem = F>, T: AsTargets + std::fmt::Debug>(
    name: &'static str,
    case: &Case,
    built: Result<DatasetBase<ArrayBase<D, Ix2>, T>, String>,
    exp: &DsExpect<T::Elem, T::Ix>,
    v: &mut Vec<Violation>,
    cnt: &mut Cnt,
) where
    T::Elem: PartialEq + std::fmt::Debug,
{
    cnt.evals += 1;
    cnt.nontrivial += 1;
    let ds = match built {
        Ok(ds) => ds,
        Err(pm) => {
            v.push(Violation::new(
                "dataset.construction_panic".to_string(),
                format!("building the dataset ({} rows x {} features, targets {:?}, options {:?}) panicked: {}", case.train.len(), case.p, exp.targets.shape(), case.ds, pm),
                case_json(case, name, None, json!({"op": "dataset", "what": "construction"})),
            ));
            return;
        }
    };
    let mk = |what: &str| case_json(case, name, None, json!({"op": "dataset", "what": what}));
    let prefix = if name.starts_with("norm_") { "norm_scaler" } else if name.starts_with("whiten_") { "whitener" } else { "linear_scaler" };
    let fitted = match guarded(|| Fitted::<F>::fit(name, &ds)) {
        Ok(Ok(f)) => f,
        Ok(Err(e)) => {
            v.push(Violation::new(format!("{}.dataset.fit.unexpected_error", prefix), format!("{}: fit on the dataset form returned Err({})", name, e), mk("fit")));
            return;
        }
        Err(pm) => {
            v.push(Violation::new(format!("{}.dataset.fit.panic", prefix), format!("{}: fit on the dataset form panicked: {}", name, pm), mk("fit")));
            return;
        }
    };
    let records: Array2<F> = ds.records().to_owned();
    let (weights, fnames, tnames) = (&exp.weights, &exp.fnames, &exp.tnames);
    let bits = |w: &Option<Vec<f32>>| w.as_ref().map(|w| w.iter().map(|x| x.to_bits()).collect::<Vec<_>>());
    // the dataset as built must already publish what it was built from
    match guarded(|| ds.weights().map(|w| w.to_vec())) {
        Err(pm) => {
            v.push(Violation::new("dataset.weights_accessor_panics".to_string(), format!("weights() of a dataset built with {} weights ({}) panicked: {}", exp.weights.as_ref().map_or(0, |w| w.len()), case.ds.as_ref().map_or("", |d| d.weight_layout.as_str()), pm), mk("weights before transform")));
            return;
        }
        Ok(w) => {
            if bits(&w) != bits(weights) {
                v.push(Violation::new("dataset.built_weights_differ".to_string(), format!("dataset built with weights {:?} publishes {:?}", weights, w), mk("weights before transform")));
                return;
            }
        }
    }
    if ds.targets().as_targets() != exp.targets.view() || ds.feature_names() != &fnames[..] || ds.target_names() != &tnames[..] {
        v.push(Violation::new(
            "dataset.built_metadata_differs".to_string(),
            format!("dataset built with targets {:?}, names {:?} / {:?} publishes {:?}, {:?} / {:?}", exp.targets, fnames, tnames, ds.targets(), ds.feature_names(), ds.target_names()),
            mk("metadata before transform"),
        ));
        return;
    }
    let want = match guarded(|| fitted.tf_arr(records.clone())) {
        Ok(z) => z,
        Err(pm) => {
            v.push(Violation::new(format!("{}.dataset.transform.panic", prefix), format!("{}: transform of the record array panicked: {}", name, pm), mk("transform")));
            return;
        }
    };
    let out = match guarded(|| fitted.tf_ds(ds)) {
        Ok(o) => o,
        Err(pm) => {
            v.push(Violation::new(format!("{}.dataset.transform.panic", prefix), format!("{}: transform of the dataset form panicked: {}", name, pm), mk("transform")));
            return;
        }
    };
    let same = out.records().dim() == want.dim() && out.records().iter().zip(want.iter()).all(|(a, b)| same_bits(f64of(*a), f64of(*b)));
    if !same {
        v.push(Violation::new(
            format!("{}.dataset.records_differ_from_array_transform", prefix),
            format!("{}: records of the transformed dataset {:?} differ from transform(record array) {:?}", name, out.records(), want),
            mk("records"),
        ));
    }
    // memory layout must not matter: same values as the array transform of a standard-layout copy
    let std_copy: Array2<F> = Array2::from_shape_fn(records.dim(), |ij| records[ij]);
    if let Ok(want_std) = guarded(|| fitted.tf_arr(std_copy)) {
        let same = out.records().dim() == want_std.dim()
            && (0..want_std.nrows()).all(|i| (0..want_std.ncols()).all(|j| same_bits(f64of(out.records()[(i, j)]), f64of(want_std[(i, j)]))));
        if !same {
            v.push(Violation::new(
                format!("{}.layout_dependence", sig_prefix(name)),
                format!(
                    "{}: records (layout {}, strides {:?}) of the transformed dataset {:?} differ from the transform of a standard-layout copy of the same records {:?}",
                    name, case.layout, records.strides(), out.records(), want_std
                ),
                mk("layout"),
            ));
        }
    }
    if out.targets().as_targets() != exp.targets.view() {
        v.push(Violation::new(format!("{}.dataset.targets_changed", prefix), format!("{}: targets {:?} became {:?}", name, exp.targets, out.targets()), mk("targets")));
    }
    match guarded(|| out.weights().map(|w| w.to_vec())) {
        Err(pm) => v.push(Violation::new(format!("{}.dataset.weights_accessor_panics", prefix), format!("{}: weights() of the transformed dataset panicked: {}", name, pm), mk("weights"))),
        Ok(wout) => {
            let field: Vec<f32> = out.weights.iter().cloned().collect();
            let field = if field.is_empty() { None } else { Some(field) };
            if bits(&wout) != bits(weights) || bits(&field) != bits(weights) {
                v.push(Violation::new(
                    format!("{}.dataset.weights_changed", prefix),
                    format!("{}: dataset built with weights {:?}: after the transform weights() = {:?}, weights field = {:?}", name, weights, wout, field),
                    mk("weights"),
                ));
            }
        }
    }
    if out.feature_names() != &fnames[..] {
        v.push(Violation::new(format!("{}.dataset.feature_names_changed", prefix), format!("{}: feature names {:?} became {:?}", name, fnames, out.feature_names()), mk("feature names")));
    }
    if out.target_names() != &tnames[..] {
        v.push(Violation::new(format!("{}.dataset.target_names_changed", prefix), format!("{}: target names {:?} became {:?}", name, tnames, out.target_names()), mk("target names")));
    }
}

fn run_dataset<F: Fl>(case: &Case, v: &mut Vec<Violation>, cnt: &mut Cnt) {
    use ndarray::{s, ShapeBuilder};
    let opt = case.ds.clone().expect("dataset case without options");
    let a: Array2<F> = arr_l(&case.train, case.p, &case.layout);
    let n = a.nrows();
    let p = case.p;
    // weights: logical values and the owned array (possibly with a negative / non-unit stride) handed over
    let wlogical: Vec<f32> = (0..n)
        .map(|i| match opt.weight_values.as_str() {
            "all_ones" => 1.0,
            "all_zeros" => 0.0,
            "mixed" => [1.0f32, 0.0, 2.5, 1.0, 0.25][i % 5],
            _ => 0.5 + i as f32 * 1.25,
        })
        .collect();
    let weights: Array1<f32> = if !opt.weights {
        Array1::zeros(0)
    } else {
        match opt.weight_layout.as_str() {
            "reversed_owned" => Array1::from_iter(wlogical.iter().rev().cloned()).slice_move(s![..;-1]),
            "strided_owned" => Array1::from_iter((0..2 * n).map(|k| if k % 2 == 0 { wlogical[k / 2] } else { -7.0 })).slice_move(s![..;2]),
            _ => Array1::from(wlogical.clone()),
        }
    };
    let exp_w = if opt.weights && n > 0 { Some(wlogical.clone()) } else { None };
    let fnames: Vec<String> = if opt.feature_names { (0..p).map(|j| format!("feature-{}", j)).collect() } else { vec![] };
    // targets: logical arrays and their bases in the requested layout
    let t1: Array1<usize> = Array1::from_iter((0..n).map(|i| (i * 7 + 3) % 5));
    let t1_rev: Array1<usize> = Array1::from_iter(t1.iter().rev().cloned());
    let t1_wide: Array1<usize> = Array1::from_iter((0..2 * n).map(|k| if k % 2 == 0 { t1[k / 2] } else { 99 }));
    let t2: Array2<f64> = Array2::from_shape_fn((n, 2), |(i, j)| i as f64 * 1.5 - j as f64 * 100.25);
    let t2_f: Array2<f64> = Array2::from_shape_vec((n, 2).f(), (0..2).flat_map(|j| (0..n).map(move |i| (i, j))).map(|(i, j)| t2[(i, j)]).collect()).unwrap();
    let t2_rev: Array2<f64> = Array2::from_shape_fn((n, 2), |(i, j)| t2[(n - 1 - i, j)]);
    let t2_tr: Array2<f64> = Array2::from_shape_fn((2, n), |(j, i)| t2[(i, j)]);
    let names = all_names(case);
    for name in names {
        if name == "minmax_flipped_5_2" {
            continue; // fit is an error by contract (checked in the "fit" families)
        }
        macro_rules! with_targets {
            ($targets:expr, $logical:expr, $nt:expr) => {{
                let tnames: Vec<String> = if opt.target_names { (0..$nt).map(|j| format!("target-{}", j)).collect() } else { vec![] };
                let exp = DsExpect { targets: $logical.clone(), weights: exp_w.clone(), fnames: fnames.clone(), tnames: tnames.clone() };
                macro_rules! build {
                    ($records:expr) => {
                        guarded(|| {
                            let base = if opt.ctor == "from_tuple" { DatasetBase::from(($records, $targets)) } else { DatasetBase::new($records, $targets) };
                            let base = if opt.weight_set == "field" {
                                let mut b = base;
                                b.weights = weights.clone();
                                b
                            } else {
                                base.with_weights(weights.clone())
                            };
                            base.with_feature_names(fnames.clone()).with_target_names(tnames.clone())
                        })
                    };
                }
                if opt.view {
                    check_ds::<F, _, _>(name, case, build!(a.view()), &exp, v, cnt);
                } else {
                    check_ds::<F, _, _>(name, case, build!(a.clone()), &exp, v, cnt);
                }
            }};
        }
        if opt.targets == "usize_1d" {
            match opt.target_layout.as_str() {
                "reversed_view" => with_targets!(t1_rev.slice(s![..;-1]), t1, 1usize),
                "strided_view" => with_targets!(t1_wide.slice(s![..;2]), t1, 1usize),
                "reversed_owned" => with_targets!(t1_rev.clone().slice_move(s![..;-1]), t1, 1usize),
                _ => with_targets!(t1.clone(), t1, 1usize),
            }
        } else {
            match opt.target_layout.as_str() {
                "col_major" => with_targets!(t2_f.clone(), t2, 2usize),
                "reversed_rows_view" => with_targets!(t2_rev.slice(s![..;-1, ..]), t2, 2usize),
                "transposed_view" => with_targets!(t2_tr.t(), t2, 2usize),
                _ => with_targets!(t2.clone(), t2, 2usize),
            }
        }
    }
}

// ------------------------------------------------------------------------------------------------
// errors: empty training data (-> Err), wrong column count (linear scalers: documented panic)
// ------------------------------------------------------------------------------------------------

fn run_errors<F: Fl>(case: &Case, v: &mut Vec<Violation>, cnt: &mut Cnt) {
    let a: Array2<F> = arr_l(&case.train, case.p, &case.layout);
    let xs = seen(&a);
    let p = case.p;
    let names = all_names(case);
    if a.nrows() == 0 {
        for c in LINS.iter().filter(|c| names.contains(&c.name)) {
            run_linear::<F>(c, case, &a, &xs, &[], false, v, cnt);
        }
        let dom = whiten_domain(&xs, p);
        for &w in WHITENERS.iter().filter(|w| names.contains(*w)) {
            run_whiten::<F>(w, case, &a, &xs, &[], &dom, v, cnt);
        }
        return;
    }
    // wrong width: "Panics if the shape of the input array is not compatible with the shape of the
    // dataset used for fitting" (rustdoc of LinearScaler::transform)
    for c in LINS.iter().filter(|c| names.contains(&c.name)) {
        if matches!(c.kind, Lin::MinMax(lo, hi) if lo > hi) {
            continue;
        }
        let ds = DatasetBase::from(a.view());
        let Ok(Ok(scaler)) = guarded(|| lin_params::<F>(c).fit(&ds)) else { continue };
        for q in 1..=4usize {
            if q == p {
                continue;
            }
            for rows in 1..=2usize {
                cnt.evals += 1;
                cnt.nontrivial += 1;
                let wrong: Array2<F> = Array2::from_shape_fn((rows, q), |(i, j)| F::cast(1.0 + i as f64 - j as f64));
                if let Ok(out) = guarded(|| scaler.transform(wrong)) {
                    v.push(Violation::new(
                        format!("linear_scaler.{}.wrong_width_answered", c.fam),
                        format!("{}: fitted on {} columns, transform of a {}x{} matrix returned a {:?} matrix instead of the documented panic", c.name, p, rows, q, out.dim()),
                        case_json(case, c.name, None, json!({"op": "wrong_width", "rows": rows, "columns": q})),
                    ));
                }
            }
        }
    }
}

fn all_names(case: &Case) -> Vec<&'static str> {
    let mut names: Vec<&'static str> = Vec::new();
    let has = |g: &str| case.groups.is_empty() || case.groups.iter().any(|x| x == g);
    if has("linear") {
        names.extend(LINS.iter().map(|c| c.name));
    }
    if has("norm") {
        names.extend(NORMS.iter().cloned());
    }
    if has("whiten") {
        names.extend(WHITENERS.iter().cloned());
    }
    if !case.cfgs.is_empty() {
        names.retain(|n| case.cfgs.iter().any(|c| c == n));
    }
    if let Some(only) = &case.cfg {
        names.retain(|n| n == only);
    }
    names
}

fn run_fit<F: Fl>(case: &Case, v: &mut Vec<Violation>, cnt: &mut Cnt) {
    let p = case.p;
    let a: Array2<F> = arr_l(&case.train, p, &case.layout);
    let xs = seen(&a);
    let tests: Vec<(Array2<F>, Mat)> = case
        .tests
        .iter()
        .map(|t| {
            let tb: Array2<F> = arr_l(t, p, &case.layout);
            let ts = seen(&tb);
            (tb, ts)
        })
        .collect();
    let in_domain = distinct_rows(&xs) >= 2;
    let names = all_names(case);
    for c in LINS.iter().filter(|c| names.contains(&c.name)) {
        run_linear::<F>(c, case, &a, &xs, &tests, in_domain, v, cnt);
    }
    for &k in NORMS.iter().filter(|k| names.contains(*k)) {
        // the norm scaler has no fitted state: the training matrix and the unseen matrices are just inputs
        let mut mats: Vec<(Option<&Mat>, &Array2<F>, &Mat)> = vec![(None, &a, &xs)];
        for (tb, ts) in &tests {
            mats.push((Some(ts), tb, ts));
        }
        run_norm::<F>(k, case, &mats, v, cnt);
    }
    let dom = if WHITENERS.iter().any(|w| names.contains(w)) { Some(whiten_domain(&xs, p)) } else { None };
    if let Some(dom) = &dom {
        for &w in WHITENERS.iter().filter(|w| names.contains(*w)) {
            run_whiten::<F>(w, case, &a, &xs, &tests, dom, v, cnt);
        }
    }
    if case.layout != "standard" && !xs.is_empty() {
        layout_independence::<F>(case, &names, &a, &tests, dom.as_ref().map_or(false, |d| d.full_rank), v, cnt);
    }
}

fn sig_prefix(name: &str) -> String {
    if let Some(c) = LINS.iter().find(|c| c.name == name) {
        format!("linear_scaler.{}", c.fam)
    } else if let Some(k) = name.strip_prefix("norm_") {
        format!("norm_scaler.{}", k)
    } else {
        format!("whitener.{}", name.strip_prefix("whiten_").unwrap_or(name))
    }
}

/// Memory layout must not matter: one fitted object (fitted on the standard-layout copy) applied to
/// the same logical matrix in standard layout and in the case's layout gives bit-identical values.
/// Fitting on the other layout is compared too, but only tallied (ndarray sums a column in a different
/// order depending on its stride, which may move a mean by an ulp; the post-conditions above already
/// ran on the fit obtained from the case's layout).
fn layout_independence<F: Fl>(
    case: &Case,
    names: &[&'static str],
    a: &Array2<F>,
    tests: &[(Array2<F>, Mat)],
    whiten_ok: bool,
    v: &mut Vec<Violation>,
    cnt: &mut Cnt,
) {
    let p = case.p;
    let a_std: Array2<F> = arr(&case.train, p);
    cnt.bump("layout_strides_differ_from_standard", (a.strides() != a_std.strides()) as u64);
    for &name in names {
        if name == "minmax_flipped_5_2" || (name.starts_with("whiten_") && !whiten_ok) {
            continue;
        }
        let ds_std = DatasetBase::from(a_std.view());
        let Ok(Ok(fitted)) = guarded(|| Fitted::<F>::fit(name, &ds_std)) else { continue };
        // fit on the laid-out matrix: accessors bit-identical?
        let ds_lay = DatasetBase::from(a.view());
        if let Ok(Ok(fl)) = guarded(|| Fitted::<F>::fit(name, &ds_lay)) {
            if fitted.accessor_bits() == fl.accessor_bits() {
                cnt.bump("layout_fit_accessors_bit_identical", 1);
            } else {
                cnt.bump("layout_fit_accessors_differ_in_rounding_or_more", 1);
            }
        }
        let mut mats: Vec<(Option<&Mat>, Array2<F>, &Array2<F>)> = vec![(None, a_std.clone(), a)];
        for (tb, ts) in tests {
            mats.push((Some(ts), arr(ts, p), tb));
        }
        for (tag, m_std, m_lay) in mats {
            cnt.evals += 1;
            cnt.nontrivial += 1;
            let (Ok(z_std), Ok(z_lay)) = (guarded(|| fitted.tf_arr(m_std.clone())), guarded(|| fitted.tf_arr(m_lay.clone()))) else { continue };
            if z_std.dim() != z_lay.dim() {
                continue; // reported by the shape oracle
            }
            let mut bad = None;
            'cmp: for i in 0..z_std.nrows() {
                for j in 0..z_std.ncols() {
                    if !same_bits(f64of(z_std[(i, j)]), f64of(z_lay[(i, j)])) {
                        bad = Some((i, j));
                        break 'cmp;
                    }
                }
            }
            if let Some((i, j)) = bad {
                v.push(Violation::new(
                    format!("{}.layout_dependence", sig_prefix(name)),
                    format!(
                        "{} ({}): the same fitted object transforms the same logical {}x{} matrix to {:e} at ({}, {}) in standard layout but to {:e} when the matrix is held in layout {} (strides {:?})",
                        name, F::NAME, z_std.nrows(), p, f64of(z_std[(i, j)]), i, j, f64of(z_lay[(i, j)]), case.layout, m_lay.strides()
                    ),
                    case_json(case, name, tag, json!({"op": "layout", "row": i, "column": j})),
                ));
            }
        }
    }
}

// ------------------------------------------------------------------------------------------------
// builder history / constructor forms, and re-use of one params object / one fitted object
// ------------------------------------------------------------------------------------------------

/// One params object (re-usable for several fits).
enum Params<F: Fl> {
    Lin(LinearScalerParams<F>),
    Norm(NormScaler),
    Wh(Whitener),
}
impl<F: Fl> Params<F> {
    fn make(name: &str) -> Params<F> {
        if let Some(c) = LINS.iter().find(|c| c.name == name) {
            Params::Lin(lin_params::<F>(c))
        } else if NORMS.contains(&name) {
            Params::Norm(norm_scaler(name))
        } else {
            Params::Wh(whitener(name))
        }
    }
    fn fit<D: Data<Elem = F>, T: AsTargets>(&self, ds: &DatasetBase<ArrayBase<D, Ix2>, T>) -> Result<Fitted<F>, String> {
        match self {
            Params::Lin(p) => p.fit(ds).map(Fitted::Lin).map_err(|e| e.to_string()),
            Params::Norm(s) => Ok(Fitted::Norm(s.clone())),
            Params::Wh(w) => w.fit(ds).map(Fitted::Wh).map_err(|e| e.to_string()),
        }
    }
}

fn method_of<F: Fl>(kind: Lin) -> ScalingMethod<F> {
    match kind {
        Lin::Std(a, b) => ScalingMethod::Standard(a, b),
        Lin::MinMax(lo, hi) => ScalingMethod::MinMax(F::cast(lo), F::cast(hi)),
        Lin::MaxAbs => ScalingMethod::MaxAbs,
    }
}
fn wmethod_of(name: &str) -> WhiteningMethod {
    match name {
        "whiten_pca" => WhiteningMethod::Pca,
        "whiten_zca" => WhiteningMethod::Zca,
        _ => WhiteningMethod::Cholesky,
    }
}
fn arr_bits<F: Fl>(a: &Array2<F>) -> (usize, usize, Vec<u64>) {
    (a.nrows(), a.ncols(), a.iter().map(|&x| { let y = f64of(x); if y.is_nan() { u64::MAX } else { y.to_bits() } }).collect())
}

/// Observable outcome of one params form: fit result kind, accessors, published method, transforms.
fn outcome<F: Fl>(fit: Result<Result<Fitted<F>, String>, String>, mats: &[&Array2<F>]) -> (String, Vec<u64>, String, Vec<(usize, usize, Vec<u64>)>) {
    match fit {
        Err(pm) => (format!("panic: {}", pm), vec![], String::new(), vec![]),
        Ok(Err(_)) => ("err".to_string(), vec![], String::new(), vec![]),
        Ok(Ok(f)) => {
            let method = match &f {
                Fitted::Lin(s) => format!("{:?}", s.method()),
                _ => String::new(),
            };
            let outs = mats.iter().map(|m| guarded(|| f.tf_arr((*m).clone())).map(|z| arr_bits(&z)).unwrap_or((usize::MAX, 0, vec![]))).collect();
            ("ok".to_string(), f.accessor_bits(), method, outs)
        }
    }
}

fn run_builder<F: Fl>(case: &Case, v: &mut Vec<Violation>, cnt: &mut Cnt) {
    let p = case.p;
    let a: Array2<F> = arr_l(&case.train, p, &case.layout);
    let xs = seen(&a);
    let tests: Vec<Array2<F>> = case.tests.iter().map(|t| arr_l(t, p, &case.layout)).collect();
    let names = all_names(case);
    let dom = whiten_domain(&xs, p);
    let mut mats: Vec<&Array2<F>> = vec![&a];
    mats.extend(tests.iter());
    let ds = DatasetBase::from(a.view());

    // ---------------- (1) every constructor form / setter history of the same logical parameters ----------------
    for c in LINS.iter().filter(|c| names.contains(&c.name)) {
        let target: ScalingMethod<F> = method_of(c.kind);
        let canonical = lin_params::<F>(c);
        let want = outcome(guarded(|| canonical.fit(&ds).map(Fitted::Lin).map_err(|e| e.to_string())), &mats);
        let mut forms: Vec<(String, &'static str, LinearScalerParams<F>)> = vec![(format!("LinearScalerParams::new({:?})", target), "constructor_dependence", LinearScalerParams::new(target.clone()))];
        for d in LINS.iter().filter(|d| d.name != c.name) {
            let decoy: ScalingMethod<F> = method_of(d.kind);
            forms.push((format!("new({:?}).method({:?})", decoy, target), "builder_order_dependence", LinearScalerParams::new(decoy.clone()).method(target.clone())));
            forms.push((format!("<constructor of {}>.method({:?})", d.name, target), "builder_order_dependence", lin_params::<F>(d).method(target.clone())));
            forms.push((format!("new({:?}).method({:?}).method({:?})", target, decoy, target), "builder_order_dependence", LinearScalerParams::new(target.clone()).method(decoy.clone()).method(target.clone())));
            forms.push((format!("<constructor of {}>.method({:?}).method({:?})", c.name, decoy, target), "builder_order_dependence", lin_params::<F>(c).method(decoy).method(target.clone())));
        }
        for (label, kind, form) in forms {
            cnt.evals += 1;
            cnt.nontrivial += 1;
            let mk = |what: &str| case_json(case, c.name, None, json!({"op": "builder", "form": label, "what": what}));
            if form != canonical {
                v.push(Violation::new(
                    format!("linear_scaler.{}.params.{}", c.fam, kind),
                    format!("{}: params built as {} = {:?} differ from the canonical constructor's {:?}", c.name, label, form, canonical),
                    mk("params equality"),
                ));
                continue;
            }
            let got = outcome(guarded(|| form.fit(&ds).map(Fitted::Lin).map_err(|e| e.to_string())), &mats);
            if got.0 == "ok" && got.2 != format!("{:?}", target) {
                v.push(Violation::new(
                    format!("linear_scaler.{}.params.{}", c.fam, kind),
                    format!("{}: fitted from {}: method() reports {} instead of {:?}", c.name, label, got.2, target),
                    mk("published method"),
                ));
            } else if got != want {
                v.push(Violation::new(
                    format!("linear_scaler.{}.params.{}", c.fam, kind),
                    format!("{}: params built as {} fit / transform differently from the canonical constructor (fit: {} vs {}; accessors equal: {}; transforms equal: {})", c.name, label, got.0, want.0, got.1 == want.1, got.3 == want.3),
                    mk("fit / transform"),
                ));
            }
        }
    }
    if dom.full_rank {
        for &w in WHITENERS.iter().filter(|w| names.contains(*w)) {
            let target = wmethod_of(w);
            let canonical = whitener(w);
            let want = outcome::<F>(guarded(|| canonical.fit(&ds).map(Fitted::Wh).map_err(|e| e.to_string())), &mats);
            let mut forms: Vec<(String, Whitener)> = Vec::new();
            for &start in WHITENERS {
                forms.push((format!("<{}>.method({:?})", start, target), whitener(start).method(target.clone())));
                for &decoy in WHITENERS {
                    forms.push((format!("<{}>.method({:?}).method({:?})", start, wmethod_of(decoy), target), whitener(start).method(wmethod_of(decoy)).method(target.clone())));
                }
            }
            for (label, form) in forms {
                cnt.evals += 1;
                cnt.nontrivial += 1;
                let m = &w[7..];
                let mk = |what: &str| case_json(case, w, None, json!({"op": "builder", "form": label, "what": what}));
                if form != canonical {
                    v.push(Violation::new(format!("whitener.{}.params.builder_order_dependence", m), format!("{}: {} = {:?} differs from the canonical constructor's {:?}", w, label, form, canonical), mk("params equality")));
                    continue;
                }
                let got = outcome::<F>(guarded(|| form.fit(&ds).map(Fitted::Wh).map_err(|e| e.to_string())), &mats);
                if got != want {
                    v.push(Violation::new(
                        format!("whitener.{}.params.builder_order_dependence", m),
                        format!("{}: {} fits / transforms differently from the canonical constructor (fit: {} vs {}; accessors equal: {}; transforms equal: {})", w, label, got.0, want.0, got.1 == want.1, got.3 == want.3),
                        mk("fit / transform"),
                    ));
                }
            }
        }
    }

    // ---------------- (2) one params object fitted several times, one fitted object applied several times ----------------
    for &name in &names {
        if name == "minmax_flipped_5_2" || (name.starts_with("whiten_") && !dom.full_rank) {
            continue;
        }
        cnt.evals += 1;
        cnt.nontrivial += 1;
        let prefix = sig_prefix(name);
        let mk = |what: &str| case_json(case, name, None, json!({"op": "reuse", "what": what}));
        let fit_bits = |r: &Result<Result<Fitted<F>, String>, String>| -> (String, Vec<u64>) {
            match r {
                Ok(Ok(f)) => ("ok".into(), f.accessor_bits()),
                Ok(Err(_)) => ("err".into(), vec![]),
                Err(_) => ("panic".into(), vec![]),
            }
        };
        // the other training sets: unseen matrices a whitener can be fitted on (others: any with a row)
        let others: Vec<&Array2<F>> = tests
            .iter()
            .filter(|t| t.nrows() > 0 && (!name.starts_with("whiten_") || whiten_domain(&seen(t), p).full_rank))
            .collect();
        let params = Params::<F>::make(name);
        let first = guarded(|| params.fit(&ds));
        for &b in &others {
            let dsb = DatasetBase::from(b.view());
            let again_b = guarded(|| params.fit(&dsb));
            let fresh_b = guarded(|| Params::<F>::make(name).fit(&dsb));
            if fit_bits(&again_b) != fit_bits(&fresh_b) {
                v.push(Violation::new(
                    format!("{}.params.state_leak_between_fits", prefix),
                    format!("{}: a params object already fitted on another matrix gives a different fit of a {}x{} matrix than a fresh params object", name, b.nrows(), p),
                    mk("second fit of the same params object"),
                ));
            }
            let again_a = guarded(|| params.fit(&ds));
            if fit_bits(&again_a) != fit_bits(&first) {
                v.push(Violation::new(
                    format!("{}.params.state_leak_between_fits", prefix),
                    format!("{}: fitting the same params object on the training matrix again (after a fit on another matrix) does not reproduce its first fit", name),
                    mk("re-fit of the first matrix"),
                ));
            }
        }
        let Ok(Ok(fitted)) = first else { continue };
        let Ok(z1) = guarded(|| fitted.tf_arr(a.clone())) else { continue };
        let z1b = arr_bits(&z1);
        let targets: Array1<usize> = Array1::from_iter(0..a.nrows());
        let mut step = 0;
        let mut check_a = |how: &str, got: Result<Array2<F>, String>, v: &mut Vec<Violation>| {
            step += 1;
            let ok = matches!(&got, Ok(z) if arr_bits(z) == z1b);
            if !ok {
                v.push(Violation::new(
                    format!("{}.state_leak_between_calls", prefix),
                    format!("{}: step {} ({}): transforming the training matrix again does not reproduce the first answer bit for bit", name, step, how),
                    mk(how),
                ));
            }
        };
        for b in tests.iter() {
            // B through the used object vs through a brand-new fitted object (array, dataset, dataset-view forms)
            let fresh = guarded(|| Params::<F>::make(name).fit(&ds).map(|f| f.tf_arr(b.clone())));
            let fresh_bits = match &fresh {
                Ok(Ok(z)) => Some(arr_bits(z)),
                _ => None,
            };
            let tb: Array1<usize> = Array1::from_iter(0..b.nrows());
            let forms: Vec<(&str, Result<Array2<F>, String>)> = vec![
                ("array", guarded(|| fitted.tf_arr(b.clone()))),
                ("dataset", guarded(|| fitted.tf_ds(DatasetBase::new(b.clone(), tb.clone())).records)),
                ("dataset view", guarded(|| fitted.tf_ds(DatasetBase::new(b.view(), tb.view())).records)),
                ("clone of the fitted object", guarded(|| fitted.clone().tf_arr(b.clone()))),
            ];
            for (how, got) in forms {
                cnt.bump("reuse_sequence_steps", 1);
                let got_bits = got.as_ref().ok().map(arr_bits);
                if got_bits != fresh_bits {
                    v.push(Violation::new(
                        format!("{}.state_leak_between_calls", prefix),
                        format!("{}: a fitted object that has already transformed other matrices transforms a {}x{} matrix ({} form) differently from a freshly fitted object", name, b.nrows(), p, how),
                        mk(how),
                    ));
                }
            }
            check_a("array form after another batch", guarded(|| fitted.tf_arr(a.clone())), v);
            check_a("dataset form after another batch", guarded(|| fitted.tf_ds(DatasetBase::new(a.clone(), targets.clone())).records), v);
            check_a("dataset view form after another batch", guarded(|| fitted.tf_ds(DatasetBase::new(a.view(), targets.view())).records), v);
        }
    }
}

pub fn run_case(case: &Case, v: &mut Vec<Violation>) -> Cnt {
    let mut cnt = Cnt::default();
    match (case.kind.as_str(), case.float.as_str()) {
        ("fit", "f64") => run_fit::<f64>(case, v, &mut cnt),
        ("fit", "f32") => run_fit::<f32>(case, v, &mut cnt),
        ("dataset", "f64") => run_dataset::<f64>(case, v, &mut cnt),
        ("dataset", "f32") => run_dataset::<f32>(case, v, &mut cnt),
        ("errors", "f64") => run_errors::<f64>(case, v, &mut cnt),
        ("errors", "f32") => run_errors::<f32>(case, v, &mut cnt),
        ("builder", "f64") => run_builder::<f64>(case, v, &mut cnt),
        ("builder", "f32") => run_builder::<f32>(case, v, &mut cnt),
        _ => panic!("bad case kind / float"),
    }
    cnt
}
