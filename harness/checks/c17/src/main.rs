//! C17 — count and tf-idf vectorisers equal a naive count of the tokenised corpus.
//!
//! Bounded exhaustive sweep (DESIGN.md §4 C17). Five families, each enumerated completely:
//!   A  tokenisation: every document over a 6-token alphabet (mixed case, pre-composed and
//!      decomposed accents) x separators x a one-letter noise token, as 1- and 2-document corpora,
//!      x {lower-case} x {normalise} x 5 tokenisers x 6 n-gram ranges;
//!   B  vocabulary filtering: every ordered corpus of 1..3 (4) documents over {aa,bb,cc} x 6 n-gram
//!      ranges x 3 stop-word sets x all 15 document-frequency windows over {0,.25,.5,.75,1} x caps;
//!   C  tf-idf: the three idf methods x training corpus x every probe corpus;
//!   D  fixed vocabularies (incl. duplicates, never-occurring and multi-word items);
//!   E  `TfIdfMethod::compute_idf` on the full (n, df) grid.
//! Oracle = reference model below (own tokenisers, n-gram window, recount; no linfa code).

mod reference;

use linfa::ParamGuard;
use linfa_preprocessing::tf_idf_vectorization::{TfIdfMethod, TfIdfVectorizer};
use linfa_preprocessing::{CountVectorizer, CountVectorizerParams, CountVectorizerValidParams, Tokenizer};
use lvmc_core::enumerate as en;
use lvmc_core::{close, guarded, json, par_sweep, Ctx, Level, Value, Violation};
use ndarray::{s, Array1, Array2, ArrayView1, Axis};
use reference::{DocRef, RefCache};
use serde::{Deserialize, Serialize};
use std::cell::RefCell;
use std::collections::{BTreeMap, BTreeSet, HashSet};
use std::sync::atomic::{AtomicU64, Ordering};

/// Policy switch (one place): the rustdoc of `max_features` says "top max_features (by term
/// frequency)". With `false` a capped vocabulary that is a top-k set by *document* frequency but
/// not by corpus term frequency is reported (narrow signature); with `true` both rankings are
/// accepted silently.
const CAP_ACCEPT_DOCUMENT_FREQUENCY_RANK: bool = true;

const SIG_MIN_DF_FLOOR: &str = "countvectorizer.fit.min_df_floor_admits_entry_below_minimum_frequency";
const SIG_FN_THEN_REGEX: &str = "countvectorizer.params.regex_tokenizer_set_after_function_tokenizer_is_ignored";
const SIG_CAP_BY_DF: &str = "countvectorizer.fit.max_features_ranked_by_document_frequency_not_term_frequency";

#[derive(Clone, Debug, Serialize, Deserialize, PartialEq)]
pub struct Settings {
    pub lowercase: bool,
    pub normalize: bool,
    pub ngram: (usize, usize),
    /// "default" | "re:ascii_letters" | "re:nonspace" | "fn:split_space" | "fn:split_semicolon" | "fn:split_whitespace"
    pub tokenizer: String,
    pub stopwords: Option<Vec<String>>,
    /// dyadic rationals: exactly representable in f32, products with n <= 4 exact
    pub df: (f64, f64),
    pub max_features: Option<usize>,
}

#[derive(Clone, Debug, Serialize, Deserialize)]
struct Case {
    family: String,
    settings: Settings,
    fixed_vocabulary: Option<Vec<String>>,
    train: Vec<String>,
    /// unseen corpora to transform (the training corpus is always transformed)
    probes: Vec<Vec<String>>,
    /// idf methods to run through TfIdfVectorizer ("smooth" | "nonsmooth" | "textbook")
    tfidf: Vec<String>,
    /// memory layout of the document array handed to fit / to transform (see `with_layout`)
    #[serde(default = "owned")]
    fit_layout: String,
    #[serde(default = "owned")]
    transform_layout: String,
    /// when present: `settings` were reached by moving a params object that was built (and fitted /
    /// validated once) at `history.from` with the differing setters only
    #[serde(default)]
    history: Option<History>,
}

fn owned() -> String {
    "owned".to_string()
}

#[derive(Clone, Debug, Serialize, Deserialize, PartialEq)]
struct History {
    from: Settings,
    /// "fit" | "check_ref": what was done with the object while it was at `from`
    first_step: String,
    /// "same" | "clone": the moved object is the validated one itself / a clone of it
    object: String,
}

/// Context of the case being run on this thread (layouts, history): read by the three call sites
/// into linfa and by `case_json`, set by `run_case` and by the layout / history sweeps. A sweep item
/// runs start to end on one thread, so this is deterministic.
#[derive(Clone, Debug)]
struct Xtra {
    fit_layout: &'static str,
    transform_layout: &'static str,
    history: Option<History>,
}

thread_local! {
    static XTRA: RefCell<Xtra> = RefCell::new(Xtra { fit_layout: "owned", transform_layout: "owned", history: None });
}

fn static_layout(name: &str) -> &'static str {
    LAYOUTS.iter().copied().find(|l| *l == name).unwrap_or_else(|| panic!("unknown layout {}", name))
}
fn set_xtra(fit_layout: &str, transform_layout: &str, history: Option<History>) {
    XTRA.with(|x| *x.borrow_mut() = Xtra { fit_layout: static_layout(fit_layout), transform_layout: static_layout(transform_layout), history });
}
fn xtra() -> Xtra {
    XTRA.with(|x| x.borrow().clone())
}
/// (fit layout, transform layout) of the case being run on this thread.
fn layouts() -> (&'static str, &'static str) {
    XTRA.with(|x| {
        let x = x.borrow();
        (x.fit_layout, x.transform_layout)
    })
}

const LAYOUTS: [&str; 7] = [
    "owned",
    "reversed_view_of_reversed_copy",
    "inverted_axis_of_reversed_copy",
    "every_second_of_interleaved",
    "every_second_reversed_of_interleaved",
    "sub_range",
    "reversed_sub_range_of_reversed_copy",
];
const FILLER: &str = "zz filler aa bb";

/// Builds a backing array and hands `f` a view whose LOGICAL content is `docs` in order, in the
/// requested memory layout (negative strides, non-unit strides, offsets into a larger array).
fn with_layout<R>(layout: &str, docs: &[String], f: impl FnOnce(ArrayView1<String>) -> R) -> R {
    let n = docs.len();
    let rev: Vec<String> = docs.iter().rev().cloned().collect();
    let filler = || FILLER.to_string();
    match layout {
        "owned" => {
            let a = Array1::from(docs.to_vec());
            f(a.view())
        }
        "reversed_view_of_reversed_copy" => {
            let a = Array1::from(rev);
            let v = a.slice(s![..;-1]);
            assert!(v.iter().eq(docs.iter()));
            f(v)
        }
        "inverted_axis_of_reversed_copy" => {
            let a = Array1::from(rev);
            let mut v = a.view();
            v.invert_axis(Axis(0));
            assert!(v.iter().eq(docs.iter()));
            f(v)
        }
        "every_second_of_interleaved" => {
            let mut b = Vec::new();
            for d in docs {
                b.push(d.clone());
                b.push(filler());
            }
            let a = Array1::from(b);
            let v = a.slice(s![..;2]);
            assert!(v.iter().eq(docs.iter()));
            f(v)
        }
        "every_second_reversed_of_interleaved" => {
            let mut b = Vec::new();
            for d in &rev {
                b.push(filler());
                b.push(d.clone());
            }
            let a = Array1::from(b);
            let v = a.slice(s![..;-2]);
            assert!(v.iter().eq(docs.iter()));
            f(v)
        }
        "sub_range" => {
            let mut b = vec![filler()];
            b.extend(docs.iter().cloned());
            b.push(filler());
            let a = Array1::from(b);
            let v = a.slice(s![1..n + 1]);
            assert!(v.iter().eq(docs.iter()));
            f(v)
        }
        "reversed_sub_range_of_reversed_copy" => {
            let mut b = vec![filler()];
            b.extend(rev.iter().cloned());
            b.push(filler());
            b.push(filler());
            let a = Array1::from(b);
            let v = a.slice(s![1..n + 1;-1]);
            assert!(v.iter().eq(docs.iter()));
            f(v)
        }
        _ => panic!("unknown layout {}", layout),
    }
}

static T_FIT: AtomicU64 = AtomicU64::new(0);
static T_TR: AtomicU64 = AtomicU64::new(0);

fn subj_split_space(s: &str) -> Vec<&str> {
    s.split(' ').collect()
}
fn subj_split_semicolon(s: &str) -> Vec<&str> {
    s.split(';').collect()
}
fn subj_split_whitespace(s: &str) -> Vec<&str> {
    s.split_whitespace().collect()
}

fn subject_tokenizer(name: &str) -> Option<Tokenizer> {
    match name {
        "default" => None,
        "re:ascii_letters" => Some(Tokenizer::Regex("[a-zA-Z]+".to_string())),
        "re:nonspace" => Some(Tokenizer::Regex(r"\S+".to_string())),
        "fn:split_space" => Some(Tokenizer::Function(subj_split_space)),
        "fn:split_semicolon" => Some(Tokenizer::Function(subj_split_semicolon)),
        "fn:split_whitespace" => Some(Tokenizer::Function(subj_split_whitespace)),
        _ => panic!("unknown tokenizer {}", name),
    }
}

fn build_params(s: &Settings) -> CountVectorizerParams {
    let mut p = CountVectorizer::params()
        .convert_to_lowercase(s.lowercase)
        .normalize(s.normalize)
        .n_gram_range(s.ngram.0, s.ngram.1)
        .document_frequency(s.df.0 as f32, s.df.1 as f32)
        .max_features(s.max_features);
    if let Some(sw) = &s.stopwords {
        p = p.stopwords(sw);
    }
    if let Some(t) = subject_tokenizer(&s.tokenizer) {
        p = p.tokenizer(t);
    }
    p
}

/// `TfIdfVectorizer` has no public setter for the idf method (only `Default` = Smooth); the other
/// two methods are reached through the crate's own serde implementation (JSON round trip with the
/// `method` field replaced). The function tokenizer is `serde(skip)`, so it is set afterwards.
fn build_tfidf(s: &Settings, method: &str) -> TfIdfVectorizer {
    let mut t = TfIdfVectorizer::default()
        .convert_to_lowercase(s.lowercase)
        .normalize(s.normalize)
        .n_gram_range(s.ngram.0, s.ngram.1)
        .document_frequency(s.df.0 as f32, s.df.1 as f32)
        .max_features(s.max_features);
    if let Some(sw) = &s.stopwords {
        t = t.stopwords(sw);
    }
    let tok = subject_tokenizer(&s.tokenizer);
    if let Some(Tokenizer::Regex(r)) = &tok {
        t = t.tokenizer(Tokenizer::Regex(r.clone()));
    }
    if method != "smooth" {
        let mut v = serde_json::to_value(&t).expect("TfIdfVectorizer serialises");
        let name = match method {
            "nonsmooth" => "NonSmooth",
            "textbook" => "Textbook",
            _ => panic!("unknown idf method"),
        };
        v.as_object_mut().expect("object").insert("method".into(), json!(name));
        t = serde_json::from_value(v).expect("TfIdfVectorizer deserialises");
    }
    if let Some(Tokenizer::Function(f)) = tok {
        t = t.tokenizer(Tokenizer::Function(f));
    }
    t
}

fn method_enum(method: &str) -> TfIdfMethod {
    match method {
        "smooth" => TfIdfMethod::Smooth,
        "nonsmooth" => TfIdfMethod::NonSmooth,
        "textbook" => TfIdfMethod::Textbook,
        _ => panic!("unknown idf method"),
    }
}

#[derive(Default, Clone)]
struct Stats {
    evals: u64,
    nontrivial: u64,
    fits: u64,
    primary_cases: u64,
    layout_cases: u64,
    layout_cases_negative_stride: u64,
    histories: u64,
    history_moves: u64,
    history_pairs_not_reachable_by_setters: u64,
    transforms: u64,
    tfidf_transforms: u64,
    window_boundary_cases: u64,
    window_fractional_sensitive_cases: u64,
    window_rejects_something: u64,
    cap_binding_cases: u64,
    cap_tie_at_cut_cases: u64,
    cap_df_tf_disagree_cases: u64,
    stopword_hits: u64,
    empty_vocabularies: u64,
    oov_probe_documents: u64,
    repeated_count_cells: u64,
    pool_probes: u64,
    distinct_vocabularies: u64,
    merged_by_lowercase_or_normalise: u64,
}

impl Stats {
    fn add(&mut self, o: &Stats) {
        self.evals += o.evals;
        self.nontrivial += o.nontrivial;
        self.fits += o.fits;
        self.primary_cases += o.primary_cases;
        self.layout_cases += o.layout_cases;
        self.layout_cases_negative_stride += o.layout_cases_negative_stride;
        self.histories += o.histories;
        self.history_moves += o.history_moves;
        self.history_pairs_not_reachable_by_setters += o.history_pairs_not_reachable_by_setters;
        self.transforms += o.transforms;
        self.tfidf_transforms += o.tfidf_transforms;
        self.window_boundary_cases += o.window_boundary_cases;
        self.window_fractional_sensitive_cases += o.window_fractional_sensitive_cases;
        self.window_rejects_something += o.window_rejects_something;
        self.cap_binding_cases += o.cap_binding_cases;
        self.cap_tie_at_cut_cases += o.cap_tie_at_cut_cases;
        self.cap_df_tf_disagree_cases += o.cap_df_tf_disagree_cases;
        self.stopword_hits += o.stopword_hits;
        self.empty_vocabularies += o.empty_vocabularies;
        self.oov_probe_documents += o.oov_probe_documents;
        self.repeated_count_cells += o.repeated_count_cells;
        self.pool_probes += o.pool_probes;
        self.distinct_vocabularies += o.distinct_vocabularies;
        self.merged_by_lowercase_or_normalise += o.merged_by_lowercase_or_normalise;
    }
}

fn case_json(family: &str, s: &Settings, fixed: Option<&[String]>, train: &[String], probe: Option<&[String]>, tfidf: Option<&str>) -> Value {
    serde_json::to_value(Case {
        family: family.to_string(),
        settings: s.clone(),
        fixed_vocabulary: fixed.map(|f| f.to_vec()),
        train: train.to_vec(),
        probes: probe.map(|p| vec![p.to_vec()]).unwrap_or_default(),
        tfidf: tfidf.map(|m| vec![m.to_string()]).unwrap_or_default(),
        fit_layout: xtra().fit_layout.to_string(),
        transform_layout: xtra().transform_layout.to_string(),
        history: xtra().history,
    })
    .unwrap()
}

/// Is `v` an admissible vocabulary for the admitted set `adm` under cap `k`, ranking by `rank`?
/// Any tie-break at the cut is accepted.
fn valid_vocab(v: &BTreeSet<&str>, adm: &BTreeSet<&str>, cap: Option<usize>, rank: &dyn Fn(&str) -> usize) -> bool {
    match cap {
        None => v == adm,
        Some(k) => {
            if !v.is_subset(adm) || v.len() != k.min(adm.len()) {
                return false;
            }
            let min_in = v.iter().map(|w| rank(w)).min();
            let max_out = adm.difference(v).map(|w| rank(w)).max();
            match (min_in, max_out) {
                (Some(a), Some(b)) => a >= b,
                _ => true,
            }
        }
    }
}

struct Fitted {
    cv: CountVectorizer,
    vocab_sorted: Vec<String>,
}

/// Fits the count vectoriser on `train` (or on the fixed vocabulary), checks the vocabulary against
/// the reference and returns the fitted model for the transform checks.
#[allow(clippy::too_many_arguments)]
fn check_fit(
    family: &str,
    s: &Settings,
    valid: &CountVectorizerValidParams,
    fixed: Option<&[String]>,
    train: &[String],
    cache: &mut RefCache,
    st: &mut Stats,
    viols: &mut Vec<Violation>,
) -> Option<Fitted> {
    st.evals += 1;
    st.fits += 1;
    let t0 = std::time::Instant::now();
    let fitted = match fixed {
        None => guarded(|| with_layout(layouts().0, train, |v| valid.fit(&v))),
        Some(words) => guarded(|| valid.fit_vocabulary(words)),
    };
    T_FIT.fetch_add(t0.elapsed().as_nanos() as u64, Ordering::Relaxed);
    check_fitted(family, s, fitted, fixed, train, cache, st, viols)
}

/// Compares the outcome of a fit (however the params object was obtained) with the reference.
#[allow(clippy::too_many_arguments)]
fn check_fitted(
    family: &str,
    s: &Settings,
    fitted: Result<linfa_preprocessing::Result<CountVectorizer>, String>,
    fixed: Option<&[String]>,
    train: &[String],
    cache: &mut RefCache,
    st: &mut Stats,
    viols: &mut Vec<Violation>,
) -> Option<Fitted> {
    let cj = || case_json(family, s, fixed, train, None, None);
    let cv = match fitted {
        Ok(Ok(cv)) => cv,
        Ok(Err(e)) => {
            viols.push(Violation::new("countvectorizer.fit.unexpected_error", format!("fit with valid settings returned Err({})", e), cj()));
            return None;
        }
        Err(p) => {
            viols.push(Violation::new("countvectorizer.fit.panic", format!("fit with valid settings panicked: {}", p), cj()));
            return None;
        }
    };
    let vocab: Vec<String> = cv.vocabulary().clone();
    let mut vocab_sorted = vocab.clone();
    vocab_sorted.sort();
    let vset: BTreeSet<&str> = vocab.iter().map(|w| w.as_str()).collect();
    if vset.len() != vocab.len() {
        viols.push(Violation::new(
            "countvectorizer.vocabulary.duplicate_entry",
            format!("vocabulary() lists an entry twice: {:?}", vocab_sorted),
            cj(),
        ));
        return None;
    }
    if cv.nentries() != vocab.len() {
        viols.push(Violation::new(
            "countvectorizer.nentries.differs_from_vocabulary_len",
            format!("nentries() = {} but vocabulary() has {} entries {:?}", cv.nentries(), vocab.len(), vocab_sorted),
            cj(),
        ));
        return None;
    }
    if vocab.is_empty() {
        st.empty_vocabularies += 1;
    }

    if let Some(words) = fixed {
        let want: BTreeSet<&str> = words.iter().map(|w| w.as_str()).collect();
        if want.len() >= 2 {
            st.nontrivial += 1;
        }
        if want != vset {
            viols.push(Violation::new(
                "countvectorizer.fit_vocabulary.vocabulary_mismatch",
                format!("fixed vocabulary {:?}: vocabulary() = {:?}", words, vocab_sorted),
                cj(),
            ));
            return None;
        }
        return Some(Fitted { cv, vocab_sorted });
    }

    // ---- reference: document frequency and corpus term frequency of every candidate n-gram ----
    let n = train.len();
    let mut df: BTreeMap<&str, usize> = BTreeMap::new();
    let mut tf: BTreeMap<&str, usize> = BTreeMap::new();
    let docs: Vec<std::rc::Rc<DocRef>> = train.iter().map(|d| cache.get(s, d)).collect();
    for d in &docs {
        for (w, c) in d.counts.iter() {
            *df.entry(w.as_str()).or_insert(0) += 1;
            *tf.entry(w.as_str()).or_insert(0) += c;
        }
        if d.merged {
            st.merged_by_lowercase_or_normalise += 1;
        }
    }
    let lo = s.df.0 * n as f64; // exact: dyadic x small integer
    let hi = s.df.1 * n as f64;
    let stop: BTreeSet<&str> = s.stopwords.iter().flatten().map(|w| w.as_str()).collect();
    let mut adm_doc: BTreeSet<&str> = BTreeSet::new(); // documented relation min <= df/n <= max
    let mut adm_floor: BTreeSet<&str> = BTreeSet::new(); // closed form of the known defect: floor(min*n) <= df
    let mut boundary = false;
    let mut rejected = false;
    let mut stop_hit = false;
    for (w, &c) in df.iter() {
        let cf = c as f64;
        if stop.contains(w) {
            stop_hit = true;
            continue;
        }
        if (cf == lo && s.df.0 > 0.0) || (cf == hi && s.df.1 < 1.0) {
            boundary = true;
        }
        if cf >= lo && cf <= hi {
            adm_doc.insert(w);
        } else {
            rejected = true;
        }
        if cf >= lo.floor() && cf <= hi {
            adm_floor.insert(w);
        }
    }
    if boundary {
        st.window_boundary_cases += 1;
    }
    if rejected {
        st.window_rejects_something += 1;
    }
    if adm_floor != adm_doc {
        st.window_fractional_sensitive_cases += 1;
    }
    if stop_hit {
        st.stopword_hits += 1;
    }
    if df.len() >= 2 && !adm_doc.is_empty() {
        st.nontrivial += 1;
    }
    let by_df = |w: &str| *df.get(w).unwrap_or(&0);
    let by_tf = |w: &str| *tf.get(w).unwrap_or(&0);
    if let Some(k) = s.max_features {
        if adm_doc.len() > k {
            st.cap_binding_cases += 1;
            // tie at the cut / rankings disagree: decided on the reference sets
            let mut dfs: Vec<usize> = adm_doc.iter().map(|w| by_df(w)).collect();
            dfs.sort_by(|a, b| b.cmp(a));
            if k >= 1 && dfs[k - 1] == dfs[k] {
                st.cap_tie_at_cut_cases += 1;
            }
            let mut top_df: Vec<&str> = adm_doc.iter().cloned().collect();
            top_df.sort_by(|a, b| by_df(b).cmp(&by_df(a)).then(a.cmp(b)));
            let top: BTreeSet<&str> = top_df.into_iter().take(k).collect();
            if !valid_vocab(&top, &adm_doc, Some(k), &by_tf) {
                st.cap_df_tf_disagree_cases += 1;
            }
        }
    }

    let cap = s.max_features;
    let ok_doc_tf = valid_vocab(&vset, &adm_doc, cap, &by_tf);
    if !ok_doc_tf {
        let ok_doc_df = valid_vocab(&vset, &adm_doc, cap, &by_df);
        let ok_floor_tf = valid_vocab(&vset, &adm_floor, cap, &by_tf);
        let ok_floor_df = valid_vocab(&vset, &adm_floor, cap, &by_df);
        let tab = |set: &BTreeSet<&str>| -> Vec<String> { set.iter().map(|w| format!("{}(df={},tf={})", w, by_df(w), by_tf(w))).collect() };
        let describe = format!(
            "n={} documents, window [{}, {}] => df in [{}, {}], cap {:?}: admitted by the documented relation: {:?}; fitted vocabulary: {:?}",
            n,
            s.df.0,
            s.df.1,
            lo,
            hi,
            cap,
            tab(&adm_doc),
            tab(&vset)
        );
        let below: Vec<String> = vset.difference(&adm_doc).map(|w| format!("{} (df {}/{} = {:.3} < min {})", w, by_df(w), n, by_df(w) as f64 / n as f64, s.df.0)).collect();
        let floor_violation = || {
            Violation::new(
                SIG_MIN_DF_FLOOR,
                format!(
                    "entries below the minimum document frequency are in the vocabulary: {:?}; observed == vocabulary under df >= floor(min*n) = {} instead of df >= min*n = {}. {}",
                    below,
                    lo.floor(),
                    lo,
                    describe
                ),
                cj(),
            )
        };
        let cap_violation = || {
            Violation::new(
                SIG_CAP_BY_DF,
                format!(
                    "max_features is documented as 'top max_features (by term frequency)': the fitted vocabulary is a top-{} set by document frequency but not by corpus term frequency. {}",
                    cap.unwrap_or(0),
                    describe
                ),
                cj(),
            )
        };
        if ok_doc_df {
            // documented admission, but ranked by document frequency
            if !CAP_ACCEPT_DOCUMENT_FREQUENCY_RANK {
                viols.push(cap_violation());
            }
        } else if ok_floor_tf {
            viols.push(floor_violation());
        } else if ok_floor_df {
            viols.push(floor_violation());
            if !CAP_ACCEPT_DOCUMENT_FREQUENCY_RANK {
                viols.push(cap_violation());
            }
        } else {
            let missing: Vec<&&str> = adm_doc.difference(&vset).collect();
            let extra: Vec<&&str> = vset.difference(&adm_doc).collect();
            let sig = if cap.is_some() && vset.is_subset(&adm_doc) && vset.len() == cap.unwrap().min(adm_doc.len()) {
                "countvectorizer.fit.max_features_not_the_most_frequent"
            } else {
                "countvectorizer.fit.vocabulary_mismatch"
            };
            viols.push(Violation::new(sig, format!("missing {:?}, unexpected {:?}. {}", missing, extra, describe), cj()));
        }
    }
    Some(Fitted { cv, vocab_sorted })
}

/// Transforms `corpus` with the fitted count vectoriser and compares every cell with the recount.
#[allow(clippy::too_many_arguments)]
fn check_transform(
    family: &str,
    s: &Settings,
    fixed: Option<&[String]>,
    train: &[String],
    f: &Fitted,
    corpus: &[String],
    is_probe: bool,
    cache: &mut RefCache,
    st: &mut Stats,
    viols: &mut Vec<Violation>,
) {
    st.evals += 1;
    st.transforms += 1;
    let cj = || case_json(family, s, fixed, train, if is_probe { Some(corpus) } else { None }, None);
    let which = if is_probe { "unseen corpus" } else { "training corpus" };
    let t0 = std::time::Instant::now();
    let r = guarded(|| with_layout(layouts().1, corpus, |v| f.cv.transform(&v).map(|m| m.to_dense())));
    T_TR.fetch_add(t0.elapsed().as_nanos() as u64, Ordering::Relaxed);
    let dense: Array2<usize> = match r {
        Ok(Ok(m)) => m,
        Ok(Err(e)) => {
            viols.push(Violation::new("countvectorizer.transform.unexpected_error", format!("transform of the {} returned Err({})", which, e), cj()));
            return;
        }
        Err(p) => {
            viols.push(Violation::new("countvectorizer.transform.panic", format!("transform of the {} ({} documents, {} vocabulary entries) panicked: {}", which, corpus.len(), f.vocab_sorted.len(), p), cj()));
            return;
        }
    };
    let vocab = f.cv.vocabulary();
    if dense.dim() != (corpus.len(), vocab.len()) {
        viols.push(Violation::new(
            "countvectorizer.transform.wrong_shape",
            format!("{}: expected shape ({}, {}), got {:?}", which, corpus.len(), vocab.len(), dense.dim()),
            cj(),
        ));
        return;
    }
    let docs: Vec<std::rc::Rc<DocRef>> = corpus.iter().map(|d| cache.get(s, d)).collect();
    let mut nontrivial = false;
    // first mismatch in (document, word) order — independent of the hash order of the columns
    let mut bad: Option<(usize, &str, usize, usize)> = None;
    for (di, d) in docs.iter().enumerate() {
        let mut in_vocab = 0usize;
        for (j, w) in vocab.iter().enumerate() {
            let want = d.counts.get(w).cloned().unwrap_or(0);
            let got = dense[(di, j)];
            if want >= 2 {
                st.repeated_count_cells += 1;
            }
            if want > 0 {
                in_vocab += 1;
            }
            if want != got {
                let better = match bad {
                    None => true,
                    Some((bd, bw, _, _)) => (di, w.as_str()) < (bd, bw),
                };
                if better {
                    bad = Some((di, w.as_str(), want, got));
                }
            }
        }
        if in_vocab < d.counts.len() {
            if is_probe {
                st.oov_probe_documents += 1;
            }
            if in_vocab > 0 {
                nontrivial = true;
            }
        }
        if in_vocab >= 2 {
            nontrivial = true;
        }
    }
    if nontrivial {
        st.nontrivial += 1;
    }
    if let Some((di, w, want, got)) = bad {
        // are the observed columns the expected columns in another order?
        let mut exp_cols: Vec<Vec<usize>> = vocab.iter().map(|w| docs.iter().map(|d| d.counts.get(w).cloned().unwrap_or(0)).collect()).collect();
        let mut got_cols: Vec<Vec<usize>> = (0..vocab.len()).map(|j| (0..docs.len()).map(|i| dense[(i, j)]).collect()).collect();
        exp_cols.sort();
        got_cols.sort();
        let mut exp_rows: Vec<Vec<usize>> = docs.iter().map(|d| vocab.iter().map(|w| d.counts.get(w).cloned().unwrap_or(0)).collect()).collect();
        let mut got_rows: Vec<Vec<usize>> = (0..docs.len()).map(|i| (0..vocab.len()).map(|j| dense[(i, j)]).collect()).collect();
        exp_rows.sort();
        got_rows.sort();
        let sig = if exp_rows == got_rows {
            "countvectorizer.transform.row_is_not_its_document"
        } else if exp_cols == got_cols {
            "countvectorizer.transform.column_is_not_its_vocabulary_item"
        } else {
            "countvectorizer.transform.wrong_count"
        };
        viols.push(Violation::new(
            sig,
            format!(
                "{}: document {} = {:?}, vocabulary item {:?}: expected count {}, column of that item holds {} (vocabulary {:?}; recount of the document {:?})",
                which, di, corpus[di], w, want, got, f.vocab_sorted, docs[di].counts
            ),
            cj(),
        ));
    }
}

fn ref_idf(method: &str, n: usize, df: usize) -> f64 {
    let (n, df) = (n as f64, df as f64);
    match method {
        "smooth" => ((1.0 + n) / (1.0 + df)).ln() + 1.0,
        "nonsmooth" => (n / df).ln() + 1.0,
        "textbook" => (n / (1.0 + df)).ln(),
        _ => panic!("unknown idf method"),
    }
}

/// tf-idf through `TfIdfVectorizer`: vocabulary must be the count vectoriser's, every entry must be
/// recount x documented idf(n, df) of the *transformed* corpus.
#[allow(clippy::too_many_arguments)]
fn check_tfidf(
    family: &str,
    s: &Settings,
    method: &str,
    fixed: Option<&[String]>,
    train: &[String],
    count_vocab_sorted: &[String],
    probes: &[&[String]],
    cache: &mut RefCache,
    st: &mut Stats,
    viols: &mut Vec<Violation>,
) {
    let t = build_tfidf(s, method);
    let fit_result = match fixed {
        None => guarded(|| with_layout(layouts().0, train, |v| t.fit(&v))),
        Some(words) => guarded(|| t.fit_vocabulary(words)),
    };
    check_tfidf_fitted(family, s, method, fit_result, fixed, train, count_vocab_sorted, probes, cache, st, viols)
}

#[allow(clippy::too_many_arguments)]
fn check_tfidf_fitted(
    family: &str,
    s: &Settings,
    method: &str,
    fit_result: Result<linfa_preprocessing::Result<linfa_preprocessing::tf_idf_vectorization::FittedTfIdfVectorizer>, String>,
    fixed: Option<&[String]>,
    train: &[String],
    count_vocab_sorted: &[String],
    probes: &[&[String]],
    cache: &mut RefCache,
    st: &mut Stats,
    viols: &mut Vec<Violation>,
) {
    let cj0 = || case_json(family, s, fixed, train, None, Some(method));
    st.evals += 1;
    st.fits += 1;
    let fitted = match fit_result {
        Ok(Ok(f)) => f,
        Ok(Err(e)) => {
            viols.push(Violation::new("tfidf.fit.unexpected_error", format!("fit returned Err({})", e), cj0()));
            return;
        }
        Err(p) => {
            viols.push(Violation::new("tfidf.fit.panic", format!("fit panicked: {}", p), cj0()));
            return;
        }
    };
    if *fitted.method() != method_enum(method) {
        println!("MACHINERY-ERROR the serde round trip did not select idf method {}", method);
        std::process::exit(2);
    }
    let vocab: Vec<String> = fitted.vocabulary().clone();
    let mut vs = vocab.clone();
    vs.sort();
    if vs != count_vocab_sorted || fitted.nentries() != vocab.len() {
        viols.push(Violation::new(
            "tfidf.fit.vocabulary_differs_from_countvectorizer",
            format!("tf-idf vocabulary {:?} (nentries {}) but CountVectorizer with the same settings learned {:?}", vs, fitted.nentries(), count_vocab_sorted),
            cj0(),
        ));
        return;
    }
    if vocab.len() >= 2 {
        st.nontrivial += 1;
    }
    let mut corpora: Vec<(&[String], bool)> = if fixed.is_none() { vec![(train, false)] } else { vec![] };
    corpora.extend(probes.iter().map(|p| (*p, true)));
    for (corpus, is_probe) in corpora {
        st.evals += 1;
        st.tfidf_transforms += 1;
        let cj = || case_json(family, s, fixed, train, if is_probe { Some(corpus) } else { None }, Some(method));
        let which = if is_probe { "unseen corpus" } else { "training corpus" };
        let dense: Array2<f64> = match guarded(|| with_layout(layouts().1, corpus, |v| fitted.transform(&v).map(|m| m.to_dense()))) {
            Ok(Ok(m)) => m,
            Ok(Err(e)) => {
                viols.push(Violation::new("tfidf.transform.unexpected_error", format!("transform of the {} returned Err({})", which, e), cj()));
                continue;
            }
            Err(p) => {
                viols.push(Violation::new("tfidf.transform.panic", format!("transform of the {} panicked: {}", which, p), cj()));
                continue;
            }
        };
        if dense.dim() != (corpus.len(), vocab.len()) {
            viols.push(Violation::new("tfidf.transform.wrong_shape", format!("{}: expected shape ({}, {}), got {:?}", which, corpus.len(), vocab.len(), dense.dim()), cj()));
            continue;
        }
        let docs: Vec<std::rc::Rc<DocRef>> = corpus.iter().map(|d| cache.get(s, d)).collect();
        let n = corpus.len();
        let mut bad: Option<(usize, &str, f64, f64, usize, usize)> = None;
        let mut nontrivial = false;
        for (j, w) in vocab.iter().enumerate() {
            let df = docs.iter().filter(|d| d.counts.contains_key(w)).count();
            if df > 0 && df < n {
                nontrivial = true;
            }
            for (di, d) in docs.iter().enumerate() {
                let c = d.counts.get(w).cloned().unwrap_or(0);
                let want = if c == 0 { 0.0 } else { c as f64 * ref_idf(method, n, df) };
                let got = dense[(di, j)];
                if !close(want, got, 1e-12, 1e-15) {
                    let better = match bad {
                        None => true,
                        Some((bd, bw, ..)) => (di, w.as_str()) < (bd, bw),
                    };
                    if better {
                        bad = Some((di, w.as_str(), want, got, c, df));
                    }
                }
            }
        }
        if nontrivial {
            st.nontrivial += 1;
        }
        if let Some((di, w, want, got, c, df)) = bad {
            // are the observed rows the expected rows in another order?
            let q = |x: f64| (x * 1e9).round() as i64;
            let mut exp_rows: Vec<Vec<i64>> = docs
                .iter()
                .map(|d| {
                    vocab
                        .iter()
                        .map(|w| {
                            let c = d.counts.get(w).cloned().unwrap_or(0);
                            let dfw = docs.iter().filter(|d| d.counts.contains_key(w)).count();
                            if c == 0 { 0 } else { q(c as f64 * ref_idf(method, n, dfw)) }
                        })
                        .collect()
                })
                .collect();
            let mut got_rows: Vec<Vec<i64>> = (0..n).map(|i| (0..vocab.len()).map(|j| q(dense[(i, j)])).collect()).collect();
            exp_rows.sort();
            got_rows.sort();
            let sig = if exp_rows == got_rows { "tfidf.transform.row_is_not_its_document" } else { "tfidf.transform.wrong_value" };
            viols.push(Violation::new(
                sig,
                format!(
                    "{} ({} documents), method {}: document {} = {:?}, item {:?}: count {} x idf(n={}, df={}) = {} expected, got {}",
                    which, n, method, di, corpus[di], w, c, n, df, want, got
                ),
                cj(),
            ));
        }
    }
}

/// Replay / single-case entry: a pure function of the case.
fn run_case(case: &Case, viols: &mut Vec<Violation>) -> Stats {
    let mut st = Stats::default();
    if case.family == "idf_grid" {
        idf_grid(&mut st, viols);
        return st;
    }
    let mut cache = RefCache::default();
    let s = &case.settings;
    if let Some(h) = &case.history {
        let mut cache_a = RefCache::default();
        let empty: Vec<String> = Vec::new();
        let probe = case.probes.first().unwrap_or(&empty);
        run_history(&case.family, &h.from, s, &h.first_step, &h.object, &case.train, probe, &mut cache_a, &mut cache, &mut st, viols);
        return st;
    }
    set_xtra(&case.fit_layout, &case.transform_layout, None);
    let st = run_plain_case(case, &mut cache, st, viols);
    set_xtra("owned", "owned", None);
    st
}

fn run_plain_case(case: &Case, cache: &mut RefCache, mut st: Stats, viols: &mut Vec<Violation>) -> Stats {
    let cache = &mut *cache;
    let s = &case.settings;
    let valid = match guarded(|| build_params(s).check()) {
        Ok(Ok(v)) => v,
        Ok(Err(e)) => {
            viols.push(Violation::new("countvectorizer.params.valid_settings_rejected", format!("check() of in-domain settings returned Err({})", e), serde_json::to_value(case).unwrap()));
            return st;
        }
        Err(p) => {
            viols.push(Violation::new("countvectorizer.params.panic", format!("check() panicked: {}", p), serde_json::to_value(case).unwrap()));
            return st;
        }
    };
    let fixed = case.fixed_vocabulary.as_deref();
    let Some(f) = check_fit(&case.family, s, &valid, fixed, &case.train, cache, &mut st, viols) else {
        return st;
    };
    if fixed.is_none() {
        check_transform(&case.family, s, fixed, &case.train, &f, &case.train, false, cache, &mut st, viols);
    }
    for p in &case.probes {
        check_transform(&case.family, s, fixed, &case.train, &f, p, true, cache, &mut st, viols);
    }
    let probes: Vec<&[String]> = case.probes.iter().map(|p| p.as_slice()).collect();
    for m in &case.tfidf {
        check_tfidf(&case.family, s, m, fixed, &case.train, &f.vocab_sorted, &probes, cache, &mut st, viols);
    }
    st
}

// ---------------------------------------------------------------------------------------------
// History dimension: a params object is a small state machine (expression string, compiled-regex
// slot, function pointer, deserialisation guard ...). A history = build at A, validate (fit or
// check_ref), move the SAME object or a CLONE to B with the differing setters only, fit again.
// Oracle: after the move the object must behave exactly like a freshly built params object at B,
// i.e. like the reference model at B; the original of a clone must still behave like A.
// ---------------------------------------------------------------------------------------------

fn explicit_tokenizer(name: &str) -> Tokenizer {
    match subject_tokenizer(name) {
        Some(t) => t,
        None => Tokenizer::Regex(r"\b\w\w+\b".to_string()), // the documented default expression
    }
}

/// Can B be reached from A with the public setters? (`stopwords` cannot be unset.)
fn reachable(a: &Settings, b: &Settings) -> bool {
    a != b && !(a.stopwords.is_some() && b.stopwords.is_none())
}

/// Applies only the setters whose value differs between `a` and `b` (same names on
/// `CountVectorizerParams` and `TfIdfVectorizer`). Returns the moved object and the number of setters.
macro_rules! move_to {
    ($obj:expr, $a:expr, $b:expr, $moves:expr) => {{
        let (a, b): (&Settings, &Settings) = ($a, $b);
        let mut p = $obj;
        if a.lowercase != b.lowercase {
            p = p.convert_to_lowercase(b.lowercase);
            $moves += 1;
        }
        if a.normalize != b.normalize {
            p = p.normalize(b.normalize);
            $moves += 1;
        }
        if a.ngram != b.ngram {
            p = p.n_gram_range(b.ngram.0, b.ngram.1);
            $moves += 1;
        }
        if a.df != b.df {
            p = p.document_frequency(b.df.0 as f32, b.df.1 as f32);
            $moves += 1;
        }
        if a.max_features != b.max_features {
            p = p.max_features(b.max_features);
            $moves += 1;
        }
        if a.stopwords != b.stopwords {
            p = p.stopwords(b.stopwords.as_ref().expect("reachable() filtered this"));
            $moves += 1;
        }
        if a.tokenizer != b.tokenizer {
            p = p.tokenizer(explicit_tokenizer(&b.tokenizer));
            $moves += 1;
        }
        p
    }};
}

#[allow(clippy::too_many_arguments)]
fn run_history(
    family: &str,
    a: &Settings,
    b: &Settings,
    first_step: &str,
    object: &str,
    train: &[String],
    probe: &[String],
    cache_a: &mut RefCache,
    cache_b: &mut RefCache,
    st: &mut Stats,
    viols: &mut Vec<Violation>,
) {
    st.histories += 1;
    let h = History { from: a.clone(), first_step: first_step.to_string(), object: object.to_string() };
    set_xtra("owned", "owned", Some(h));
    let canonical = case_json(family, b, None, train, Some(probe), Some("smooth"));
    let mut tmp: Vec<Violation> = Vec::new();
    let mut moves = 0u64;
    // ---- count vectoriser ----
    let p = build_params(a);
    match first_step {
        "fit" => {
            let r = guarded(|| with_layout("owned", train, |v| p.fit(&v)));
            let mut t1 = Vec::new();
            check_fitted(family, a, r, None, train, cache_a, st, &mut t1);
            for mut v in t1 {
                v.sig = format!("first_fit.{}", v.sig);
                tmp.push(v);
            }
        }
        "check_ref" => {
            st.evals += 1;
            match guarded(|| p.check_ref().map(|_| ())) {
                Ok(Ok(())) => {}
                Ok(Err(e)) => tmp.push(Violation::new("first_check.valid_settings_rejected", format!("check_ref() of in-domain settings {:?} returned Err({})", a, e), Value::Null)),
                Err(m) => tmp.push(Violation::new("first_check.panic", format!("check_ref() panicked: {}", m), Value::Null)),
            }
        }
        _ => panic!("unknown first step"),
    }
    let (q, original) = if object == "clone" { (p.clone(), Some(p)) } else { (p, None) };
    let q = move_to!(q, a, b, moves);
    st.history_moves += moves;
    let r2 = guarded(|| with_layout("owned", train, |v| q.fit(&v)));
    let mut t2 = Vec::new();
    let fb = check_fitted(family, b, r2, None, train, cache_b, st, &mut t2);
    if let Some(f) = &fb {
        check_transform(family, b, None, train, f, train, false, cache_b, st, &mut t2);
        check_transform(family, b, None, train, f, probe, true, cache_b, st, &mut t2);
    }
    // closed form of a known shape: a regex tokenizer set after a function tokenizer is ignored, i.e. the
    // moved object behaves exactly like B with A's tokenizer function still in place
    let fn_to_regex = a.tokenizer.starts_with("fn:") && !b.tokenizer.starts_with("fn:");
    let mut b_stale = b.clone();
    b_stale.tokenizer = a.tokenizer.clone();
    let mut stale_fn_confirmed = false;
    if fn_to_regex && !t2.is_empty() {
        let mut scratch_st = Stats::default();
        let mut scratch = Vec::new();
        let mut cache_s = RefCache::default();
        let r = guarded(|| with_layout("owned", train, |v| q.fit(&v)));
        if let Some(f) = check_fitted(family, &b_stale, r, None, train, &mut cache_s, &mut scratch_st, &mut scratch) {
            check_transform(family, &b_stale, None, train, &f, train, false, &mut cache_s, &mut scratch_st, &mut scratch);
            check_transform(family, &b_stale, None, train, &f, probe, true, &mut cache_s, &mut scratch_st, &mut scratch);
            stale_fn_confirmed = scratch.is_empty();
        }
    }
    if stale_fn_confirmed {
        let first = t2.remove(0);
        t2.clear();
        tmp.push(Violation::new(
            SIG_FN_THEN_REGEX,
            format!(
                "params object built with tokenizer {:?} and then given .tokenizer(Tokenizer::Regex(..)) for {:?} ({}, {}): the regex is ignored, vocabulary and counts are exactly those of the function tokenizer still in place; e.g. {}",
                a.tokenizer,
                b.tokenizer,
                if first_step == "fit" { "fitted once before" } else { "validated once before" },
                if object == "clone" { "clone moved" } else { "same object moved" },
                first.what
            ),
            Value::Null,
        ));
    }
    for mut v in t2 {
        v.sig = format!("after_move.{}", v.sig);
        v.what = format!("params object built at {:?}, {} once, then {} moved to {:?} with the differing setters: it does not behave like a fresh object at the new settings: {}", a, if first_step == "fit" { "fitted" } else { "validated (check_ref)" }, if object == "clone" { "a clone of it" } else { "the same object" }, b, v.what);
        tmp.push(v);
    }
    if let Some(orig) = original {
        // the original of the clone must be untouched by what happened to the clone
        let r3 = guarded(|| with_layout("owned", train, |v| orig.fit(&v)));
        let mut t3 = Vec::new();
        check_fitted(family, a, r3, None, train, cache_a, st, &mut t3);
        for mut v in t3 {
            v.sig = format!("original_after_clone_moved.{}", v.sig);
            tmp.push(v);
        }
    }
    // ---- tf-idf vectoriser (wraps the same params) ----
    if let Some(f) = &fb {
        let t = build_tfidf(a, "smooth");
        st.evals += 1;
        match guarded(|| with_layout("owned", train, |v| t.fit(&v).map(|_| ()))) {
            Ok(Ok(())) => {}
            Ok(Err(e)) => tmp.push(Violation::new("first_fit.tfidf.fit.unexpected_error", format!("tf-idf fit at {:?} returned Err({})", a, e), Value::Null)),
            Err(m) => tmp.push(Violation::new("first_fit.tfidf.fit.panic", format!("tf-idf fit at {:?} panicked: {}", a, m), Value::Null)),
        }
        let t2v = if object == "clone" { t.clone() } else { t };
        let mut m2 = 0u64;
        let t2v = move_to!(t2v, a, b, m2);
        st.history_moves += m2;
        let r = guarded(|| with_layout("owned", train, |v| t2v.fit(&v)));
        let mut t4 = Vec::new();
        check_tfidf_fitted(family, b, "smooth", r, None, train, &f.vocab_sorted, &[probe], cache_b, st, &mut t4);
        if stale_fn_confirmed && !t4.is_empty() {
            // same closed form through the tf-idf wrapper
            let mut scratch_st = Stats::default();
            let mut scratch = Vec::new();
            let mut cache_s = RefCache::default();
            let r = guarded(|| with_layout("owned", train, |v| t2v.fit(&v)));
            check_tfidf_fitted(family, &b_stale, "smooth", r, None, train, &f.vocab_sorted, &[probe], &mut cache_s, &mut scratch_st, &mut scratch);
            if scratch.is_empty() {
                t4.clear();
            }
        }
        for mut v in t4 {
            v.sig = format!("after_move.{}", v.sig);
            v.what = format!("TfIdfVectorizer built at {:?}, fitted once, then {} moved to {:?}: {}", a, if object == "clone" { "a clone of it" } else { "the same object" }, b, v.what);
            tmp.push(v);
        }
    }
    for mut v in tmp {
        v.sig = format!("history.{}", v.sig);
        v.case = canonical.clone();
        viols.push(v);
    }
    set_xtra("owned", "owned", None);
}

fn history_menu() -> Vec<Settings> {
    let d = default_settings();
    let with = |f: &dyn Fn(&mut Settings)| {
        let mut s = d.clone();
        f(&mut s);
        s
    };
    vec![
        d.clone(),
        with(&|s| s.tokenizer = "re:ascii_letters".into()),
        with(&|s| s.tokenizer = "re:nonspace".into()),
        with(&|s| s.tokenizer = "fn:split_semicolon".into()),
        with(&|s| s.tokenizer = "fn:split_space".into()),
        with(&|s| s.lowercase = false),
        with(&|s| s.ngram = (1, 2)),
        with(&|s| s.stopwords = Some(vec!["aa".into()])),
        with(&|s| s.df = (0.5, 1.0)),
        with(&|s| {
            s.tokenizer = "re:nonspace".into();
            s.lowercase = false;
            s.ngram = (1, 2);
        }),
        with(&|s| {
            s.tokenizer = "re:ascii_letters".into();
            s.stopwords = Some(vec!["bb".into()]);
            s.max_features = Some(2);
        }),
        with(&|s| s.normalize = false),
    ]
}

fn history_corpora() -> Vec<Vec<String>> {
    let c = |v: &[&str]| v.iter().map(|x| x.to_string()).collect::<Vec<String>>();
    vec![
        c(&["aa x Bb", "Bb, aa;cc"]),
        c(&["a b;aa", "aa aa bb", "Aa;bb x"]),
        c(&["\u{e9}e aa", "e\u{301}e;aa bb", "bb"]),
        c(&["aa-bb cc", "cc;aa-bb", "", "aa"]),
        c(&["aa bb aa bb", "bb aa"]),
    ]
}

fn history_probe() -> Vec<String> {
    vec!["bb;aa x".to_string(), "Aa aa, cc".to_string(), "dd \u{e9}e".to_string()]
}

/// Family E: `compute_idf` against the documented formulas on the whole (n, df) grid.
fn idf_grid(st: &mut Stats, viols: &mut Vec<Violation>) {
    for (name, m) in [("smooth", TfIdfMethod::Smooth), ("nonsmooth", TfIdfMethod::NonSmooth), ("textbook", TfIdfMethod::Textbook)] {
        for n in 1..=12usize {
            for df in 0..=n {
                if name == "nonsmooth" && df == 0 {
                    continue; // documented division by zero
                }
                st.evals += 1;
                st.nontrivial += 1;
                let want = ref_idf(name, n, df);
                match guarded(|| m.compute_idf(n, df)) {
                    Ok(got) if close(want, got, 1e-12, 1e-15) => {}
                    Ok(got) => viols.push(Violation::new(
                        "tfidf.compute_idf.wrong_value",
                        format!("{}: idf(n={}, df={}) expected {} got {}", name, n, df, want, got),
                        json!({"family": "idf_grid", "settings": default_settings(), "fixed_vocabulary": null, "train": [], "probes": [], "tfidf": []}),
                    )),
                    Err(p) => viols.push(Violation::new(
                        "tfidf.compute_idf.panic",
                        format!("{}: idf(n={}, df={}) panicked: {}", name, n, df, p),
                        json!({"family": "idf_grid", "settings": default_settings(), "fixed_vocabulary": null, "train": [], "probes": [], "tfidf": []}),
                    )),
                }
            }
        }
    }
}

fn default_settings() -> Settings {
    Settings { lowercase: true, normalize: true, ngram: (1, 1), tokenizer: "default".into(), stopwords: None, df: (0.0, 1.0), max_features: None }
}

fn replay_value(v: &Value) -> Vec<Violation> {
    let c: Case = match serde_json::from_value(v.clone()) {
        Ok(c) => c,
        Err(e) => {
            println!("MACHINERY-ERROR replay case does not parse: {}", e);
            std::process::exit(2);
        }
    };
    let mut out = Vec::new();
    run_case(&c, &mut out);
    out
}

/// One sweep item: one settings value with all its training corpora (the regex of the settings is
/// compiled once per item; every reported violation still carries a self-contained single case).
struct Item {
    family: &'static str,
    settings: Settings,
    /// indices into the family's corpus list
    corpora: std::sync::Arc<Vec<Vec<String>>>,
    /// pool of documents transformed as one unseen corpus for every *new* fitted vocabulary
    pool: std::sync::Arc<Vec<String>>,
    /// unseen corpora for the tf-idf family
    probes: std::sync::Arc<Vec<Vec<String>>>,
    tfidf: Vec<String>,
    fixed: std::sync::Arc<Vec<Vec<String>>>,
}

fn run_item(it: &Item, viols: &mut Vec<Violation>) -> Stats {
    let mut st = Stats::default();
    let s = &it.settings;
    let mut cache = RefCache::default();
    let valid = match guarded(|| build_params(s).check()) {
        Ok(Ok(v)) => v,
        Ok(Err(e)) => {
            st.evals += 1;
            viols.push(Violation::new(
                "countvectorizer.params.valid_settings_rejected",
                format!("check() of in-domain settings returned Err({})", e),
                case_json(it.family, s, None, &[], None, None),
            ));
            return st;
        }
        Err(p) => {
            st.evals += 1;
            viols.push(Violation::new("countvectorizer.params.panic", format!("check() panicked: {}", p), case_json(it.family, s, None, &[], None, None)));
            return st;
        }
    };
    let mut seen: HashSet<Vec<String>> = HashSet::new();
    if it.family == "H_history" {
        let menu = history_menu();
        let probe = history_probe();
        let mut cache_b = RefCache::default();
        for b in &menu {
            if !reachable(s, b) {
                if s != b {
                    st.history_pairs_not_reachable_by_setters += 1;
                }
                continue;
            }
            for first in ["fit", "check_ref"] {
                for object in ["same", "clone"] {
                    for train in it.corpora.iter() {
                        st.primary_cases += 1;
                        run_history(it.family, s, b, first, object, train, &probe, &mut cache, &mut cache_b, &mut st, viols);
                    }
                }
            }
        }
        return st;
    }
    if it.family == "L_layouts" {
        let probes: Vec<&[String]> = Vec::new();
        let _ = probes;
        for train in it.corpora.iter() {
            let mut probe = train.clone();
            if !probe.is_empty() {
                probe.rotate_left(1);
            }
            probe.push("bb aa cc".to_string());
            for fl in LAYOUTS {
                for tl in LAYOUTS {
                    set_xtra(fl, tl, None);
                    st.primary_cases += 1;
                    st.layout_cases += 1;
                    if fl.contains("reversed") || fl.contains("inverted") || tl.contains("reversed") || tl.contains("inverted") {
                        st.layout_cases_negative_stride += 1;
                    }
                    let Some(f) = check_fit(it.family, s, &valid, None, train, &mut cache, &mut st, viols) else { continue };
                    check_transform(it.family, s, None, train, &f, train, false, &mut cache, &mut st, viols);
                    check_transform(it.family, s, None, train, &f, &probe, true, &mut cache, &mut st, viols);
                    // tf-idf (every fit compiles the regex again, ~1 ms): equal layouts and owned x any layout
                    if fl == tl || fl == "owned" || tl == "owned" {
                        for m in &it.tfidf {
                            check_tfidf(it.family, s, m, None, train, &f.vocab_sorted, &[probe.as_slice()], &mut cache, &mut st, viols);
                        }
                    }
                }
            }
        }
        set_xtra("owned", "owned", None);
        return st;
    }
    if !it.fixed.is_empty() {
        // family D: fixed vocabularies, the pool is the unseen corpus
        for words in it.fixed.iter() {
            st.primary_cases += 1;
            let Some(f) = check_fit(it.family, s, &valid, Some(words), &[], &mut cache, &mut st, viols) else { continue };
            check_transform(it.family, s, Some(words), &[], &f, &it.pool, true, &mut cache, &mut st, viols);
            st.pool_probes += 1;
            check_transform(it.family, s, Some(words), &[], &f, &[], true, &mut cache, &mut st, viols);
            for m in &it.tfidf {
                check_tfidf(it.family, s, m, Some(words), &[], &f.vocab_sorted, &[it.pool.as_slice()], &mut cache, &mut st, viols);
            }
        }
        return st;
    }
    let probes: Vec<&[String]> = it.probes.iter().map(|p| p.as_slice()).collect();
    for train in it.corpora.iter() {
        st.primary_cases += 1;
        let Some(f) = check_fit(it.family, s, &valid, None, train, &mut cache, &mut st, viols) else { continue };
        check_transform(it.family, s, None, train, &f, train, false, &mut cache, &mut st, viols);
        if !it.pool.is_empty() && seen.insert(f.vocab_sorted.clone()) {
            st.distinct_vocabularies += 1;
            st.pool_probes += 1;
            check_transform(it.family, s, None, train, &f, &it.pool, true, &mut cache, &mut st, viols);
        }
        for m in &it.tfidf {
            check_tfidf(it.family, s, m, None, train, &f.vocab_sorted, &probes, &mut cache, &mut st, viols);
        }
    }
    st
}

fn join_doc(tokens: &[&str], sep: &str, noise: bool) -> String {
    // the noise token (one letter, dropped by the default regex) goes after the first token
    let mut parts: Vec<String> = Vec::new();
    for (i, t) in tokens.iter().enumerate() {
        parts.push(t.to_string());
        if i == 0 && noise {
            parts.push("x".to_string());
        }
    }
    if tokens.is_empty() && noise {
        parts.push("x".to_string());
    }
    parts.join(sep)
}

fn docs_over(alphabet: &[&str], max_len: usize, seps: &[&str], noise: &[bool]) -> Vec<String> {
    let mut out: Vec<String> = Vec::new();
    let mut seen: HashSet<String> = HashSet::new();
    for seq in en::sequences_upto(max_len, alphabet.len()) {
        let toks: Vec<&str> = seq.iter().map(|&i| alphabet[i]).collect();
        for sep in seps {
            for &nz in noise {
                let d = join_doc(&toks, sep, nz);
                if seen.insert(d.clone()) {
                    out.push(d);
                }
            }
        }
    }
    out
}

fn tuples(pool: &[String], n: usize) -> Vec<Vec<String>> {
    en::sequences(n, pool.len()).into_iter().map(|ix| ix.iter().map(|&i| pool[i].clone()).collect()).collect()
}

fn main() {
    let ctx = Ctx::new("C17", Level::Exploration);
    ctx.maybe_replay(&replay_value);
    ctx.set_rule(
        "sweep items = settings values; per item every training corpus of the family is fitted (vocabulary vs reference), transformed \
         (every cell vs recount), and every NEW fitted vocabulary of the item is also applied to the family's whole document pool as one unseen corpus. \
         A tokenisation: docs = all token sequences of length 0..3 over {aa,Aa,bb,e+U+0301+e,U+00E9+e,U+00C9+e} x separators {' ',', ',';'} x optional \
         one-letter noise token; corpora = every single document + every ordered pair of the length<=2 (quick: length<=1) space/no-noise documents; settings = \
         lowercase x normalise x 5 tokenisers (default regex, [a-zA-Z]+, \\S+, fn split(' '), fn split(';')) x 6 n-gram ranges. \
         B filtering: docs = all sequences of length 0..3 over {aa,bb,cc}; corpora = the empty corpus, all ordered tuples of 1..2 docs, tuples of 3 (quick: docs of length<=2 over {aa,bb}), \
         tuples of 4 over length<=1 docs, thorough also over {aa,bb} length<=2 docs, tokenised by a split_whitespace function; the same grid (quick: without n-gram ranges (2,3),(3,3)) with the default regex over a smaller corpus list \
         (singles, pairs (quick: of length<=2 docs), triples of length<=1 docs, thorough also 4-tuples of length<=1 docs); settings = 6 n-gram ranges x stop words {none,{aa},{aa bb}} x all 15 \
         windows min<=max over {0,.25,.5,.75,1} x caps {None,1,2} (thorough also 3). C tf-idf: 3 idf methods x n-gram {(1,1),(1,2)} x windows {(0,1),(.5,1)} x training corpora x \
         all unseen corpora of 1..2 pool documents (+ fixed 3- and 4-document corpora). D fixed vocabularies: all word sequences of length 0..3 over 6 words (duplicates included) x \
         lowercase x normalise x 5 tokenisers x 4 n-gram ranges, transformed on the family-A pool and on the empty corpus (tf-idf, 3 methods, on the sub-grid lowercase+normalise, (1,2), {default, fn split(' ')}). E compute_idf on n<=12, 0<=df<=n. \
         L layouts: the document array handed to fit and (independently) to transform is an owned array, a reversed view of a reversed copy, an inverted-axis view, every second element of an interleaved array \
         (stride 2 and -2), a sub-range and a reversed sub-range of a padded array - 7 x 7 layout pairs with identical LOGICAL documents x corpora of 0..5 documents x 2 settings, count (all pairs) and tf-idf (equal layouts and owned x any): row d must belong to document d. \
         H history: 12-settings menu (tokeniser regex / function, lowercase, normalise, n-gram, stop words, df window, cap); for every ordered pair (A,B) reachable with setters x {fit, check_ref at A} x {same object, clone} x 5 corpora: \
         build at A, validate, apply only the differing setters, fit again; vocabulary, counts (training + unseen corpus) and tf-idf (TfIdfVectorizer moved the same way) must equal the reference at B, the original of a clone must still equal A. \
         evaluation = one oracle comparison of a whole fit (vocabulary) or of a whole transformed matrix; non-trivial = fit with >= 2 candidate n-grams and a non-empty admitted \
         set / transform where a document has >= 2 in-vocabulary items or both in- and out-of-vocabulary items / tf-idf matrix with an item of 0 < df < n. Distinct by construction of the enumerators.",
    );
    ctx.assume("reference = own NFKD table (U+00E9, U+00C9, U+FB01; everything else in the alphabet is its own NFKD), own lower-casing table, own tokenisers (maximal runs of word characters of length >= 2 for the default regex \\b\\w\\w+\\b; word character = alphanumeric, '_' or U+0300..U+036F), own n-gram window, BTreeMap recount");
    ctx.assume("admitted = documented relation min <= df/n <= max evaluated as min*n <= df <= max*n; min, max in {0,.25,.5,.75,1} and n <= 4, so every product is exact in f32 and f64 (no rounding margin, nothing indeterminate)");
    ctx.assume("stop words exclude vocabulary ENTRIES (n-grams equal to a stop word), as the rustdoc says ('entries to be excluded from the generated vocabulary'); they are not removed from the token stream");
    ctx.assume("feature cap: any top-k set is accepted (any tie-break); ranking demanded = corpus term frequency, as documented ('top max_features (by term frequency)'); a top-k set by document frequency only is reported under its own narrow signature");
    ctx.assume("layouts: every view has the same logical element sequence as the owned array (asserted in the harness before the call); history: the default tokeniser is re-selected with Tokenizer::Regex of the documented default expression; stop words cannot be unset through the public setters, such pairs are counted as not reachable");
    ctx.assume("vocabulary compared as a set; column j is identified through vocabulary()[j]; counts exact; tf-idf entries vs count x documented idf(n, df over the transformed corpus) at relative 1e-12");
    ctx.assume("idf methods NonSmooth / Textbook are selected through the crate's serde implementation because TfIdfVectorizer has no public setter for the method");
    ctx.assume("fixed vocabulary: settings are not applied to the given words (rustdoc: attributes ignored in fitting), documents are processed with the settings at transform time");

    let thorough = ctx.thorough();
    let ngrams6: Vec<(usize, usize)> = vec![(1, 1), (1, 2), (2, 2), (1, 3), (2, 3), (3, 3)];
    let tokenizers = ["default", "re:ascii_letters", "re:nonspace", "fn:split_space", "fn:split_semicolon"];
    let empty_pool: std::sync::Arc<Vec<String>> = std::sync::Arc::new(Vec::new());
    let no_corpora: std::sync::Arc<Vec<Vec<String>>> = std::sync::Arc::new(Vec::new());
    let mut items: Vec<Item> = Vec::new();
    let mut expected_cases: u64 = 0;

    // ---------------- family A ----------------
    let alpha_a = ["aa", "Aa", "bb", "e\u{301}e", "\u{e9}e", "\u{c9}e"];
    let docs_a_full = docs_over(&alpha_a, 3, &[" ", ", ", ";"], &[false, true]);
    let docs_a_small = docs_over(&alpha_a, 2, &[" "], &[false]);
    let mut corpora_a: Vec<Vec<String>> = docs_a_full.iter().map(|d| vec![d.clone()]).collect();
    // quick: ordered pairs of the length<=1 documents only
    let docs_a_tiny = docs_over(&alpha_a, 1, &[" "], &[false]);
    corpora_a.extend(tuples(if thorough { &docs_a_small } else { &docs_a_tiny }, 2));
    let pool_a: Vec<String> = if thorough { docs_over(&alpha_a, 2, &[" ", ", ", ";"], &[false, true]) } else { docs_a_small.clone() };
    let corpora_a = std::sync::Arc::new(corpora_a);
    let pool_a = std::sync::Arc::new(pool_a);
    for lowercase in [true, false] {
        for normalize in [true, false] {
            for tok in tokenizers {
                for &ng in &ngrams6 {
                    items.push(Item {
                        family: "A_tokenisation",
                        settings: Settings { lowercase, normalize, ngram: ng, tokenizer: tok.into(), stopwords: None, df: (0.0, 1.0), max_features: None },
                        corpora: corpora_a.clone(),
                        pool: pool_a.clone(),
                        probes: no_corpora.clone(),
                        tfidf: vec![],
                        fixed: no_corpora.clone(),
                    });
                    expected_cases += corpora_a.len() as u64;
                }
            }
        }
    }
    ctx.extra("A_documents", json!(docs_a_full.len()));
    ctx.extra("A_corpora", json!(corpora_a.len()));
    ctx.extra("A_pool_documents", json!(pool_a.len()));

    // ---------------- family B ----------------
    let alpha_b = ["aa", "bb", "cc"];
    let docs_b3 = docs_over(&alpha_b, 3, &[" "], &[false]);
    let docs_b2 = docs_over(&alpha_b, 2, &[" "], &[false]);
    let docs_b1 = docs_over(&alpha_b, 1, &[" "], &[false]);
    let docs_ab2 = docs_over(&["aa", "bb"], 2, &[" "], &[false]);
    // big sweep with a function tokenizer (a fitted CountVectorizer owns a *clone* of the compiled regex whose
    // first search allocates a fresh matcher cache, ~150 us per fit: the regex path gets a smaller corpus list)
    let mut corpora_b: Vec<Vec<String>> = Vec::new();
    corpora_b.push(vec![]); // the empty corpus
    corpora_b.extend(tuples(&docs_b3, 1));
    corpora_b.extend(tuples(&docs_b3, 2));
    corpora_b.extend(tuples(if thorough { &docs_b3 } else { &docs_ab2 }, 3));
    corpora_b.extend(tuples(&docs_b1, 4));
    if thorough {
        corpora_b.extend(tuples(&docs_ab2, 4));
    }
    let mut corpora_br: Vec<Vec<String>> = Vec::new();
    corpora_br.push(vec![]);
    corpora_br.extend(tuples(&docs_b3, 1));
    corpora_br.extend(tuples(if thorough { &docs_b3 } else { &docs_b2 }, 2));
    corpora_br.extend(tuples(&docs_b1, 3));
    if thorough {
        corpora_br.extend(tuples(&docs_b1, 4));
    }
    let corpora_b = std::sync::Arc::new(corpora_b);
    let corpora_br = std::sync::Arc::new(corpora_br);
    let pool_b = std::sync::Arc::new({
        let mut p = docs_b3.clone();
        p.push("dd aa dd bb cc dd".to_string()); // out-of-vocabulary token breaking adjacency
        p.push("aa aa aa aa bb bb".to_string());
        p
    });
    let levels = [0.0, 0.25, 0.5, 0.75, 1.0];
    let mut windows: Vec<(f64, f64)> = Vec::new();
    for &a in &levels {
        for &b in &levels {
            if a <= b {
                windows.push((a, b));
            }
        }
    }
    let stops: Vec<Option<Vec<String>>> = vec![None, Some(vec!["aa".into()]), Some(vec!["aa bb".into()])];
    let caps: Vec<Option<usize>> = if thorough { vec![None, Some(1), Some(2), Some(3)] } else { vec![None, Some(1), Some(2)] };
    for (family, tok, corpora) in [("B_filtering", "fn:split_whitespace", &corpora_b), ("B_filtering_default_regex", "default", &corpora_br)] {
        for &ng in &ngrams6 {
            // quick: the regex path skips the two ranges without unigrams/bigram start that the function-tokenizer sweep covers in full
            if !thorough && family == "B_filtering_default_regex" && (ng == (2, 3) || ng == (3, 3)) {
                continue;
            }
            for sw in &stops {
                for &w in &windows {
                    for &cap in &caps {
                        items.push(Item {
                            family,
                            settings: Settings { lowercase: true, normalize: true, ngram: ng, tokenizer: tok.into(), stopwords: sw.clone(), df: w, max_features: cap },
                            corpora: corpora.clone(),
                            pool: pool_b.clone(),
                            probes: no_corpora.clone(),
                            tfidf: vec![],
                            fixed: no_corpora.clone(),
                        });
                        expected_cases += corpora.len() as u64;
                    }
                }
            }
        }
    }
    ctx.extra("B_corpora", json!(corpora_b.len()));
    ctx.extra("B_default_regex_corpora", json!(corpora_br.len()));
    ctx.extra("B_settings", json!(ngrams6.len() * stops.len() * windows.len() * caps.len()));

    // ---------------- family C (tf-idf) ----------------
    let mut corpora_c: Vec<Vec<String>> = Vec::new();
    let c_docs = if thorough { &docs_b3 } else { &docs_b2 };
    corpora_c.extend(tuples(c_docs, 1));
    corpora_c.extend(tuples(c_docs, 2));
    corpora_c.push(vec!["aa bb".into(), "bb cc".into(), "cc".into()]);
    let corpora_c = std::sync::Arc::new(corpora_c);
    let mut probes_c: Vec<Vec<String>> = Vec::new();
    probes_c.extend(tuples(&docs_b2, 1));
    probes_c.extend(tuples(&docs_b2, 2));
    probes_c.push(vec!["aa".into(), "aa bb".into(), "bb bb cc".into()]);
    probes_c.push(vec!["aa aa".into(), "bb".into(), "".into(), "aa cc bb aa".into()]);
    probes_c.push(vec!["dd".into(), "aa dd bb".into(), "cc cc".into(), "aa".into()]);
    probes_c.push(vec![]);
    let probes_c = std::sync::Arc::new(probes_c);
    for &ng in &[(1usize, 1usize), (1, 2)] {
        for &w in &[(0.0, 1.0), (0.5, 1.0)] {
            // one item per training-corpus chunk so that the tf-idf work is spread over the cores
            for chunk in corpora_c.chunks(64) {
                let chunk = std::sync::Arc::new(chunk.to_vec());
                expected_cases += chunk.len() as u64;
                items.push(Item {
                    family: "C_tfidf",
                    settings: Settings { lowercase: true, normalize: true, ngram: ng, tokenizer: "default".into(), stopwords: None, df: w, max_features: None },
                    corpora: chunk,
                    pool: empty_pool.clone(),
                    probes: probes_c.clone(),
                    tfidf: vec!["smooth".into(), "nonsmooth".into(), "textbook".into()],
                    fixed: no_corpora.clone(),
                });
            }
        }
    }
    // tf-idf through the other tokeniser kinds (function tokenizer survives the serde detour)
    for tok in ["fn:split_space", "re:nonspace"] {
        let small: Vec<Vec<String>> = tuples(&docs_b1, 2);
        expected_cases += small.len() as u64;
        items.push(Item {
            family: "C_tfidf",
            settings: Settings { lowercase: false, normalize: false, ngram: (1, 2), tokenizer: tok.into(), stopwords: Some(vec!["aa".into()]), df: (0.0, 1.0), max_features: Some(2) },
            corpora: std::sync::Arc::new(small),
            pool: empty_pool.clone(),
            probes: probes_c.clone(),
            tfidf: vec!["smooth".into(), "nonsmooth".into(), "textbook".into()],
            fixed: no_corpora.clone(),
        });
    }
    ctx.extra("C_training_corpora", json!(corpora_c.len()));
    ctx.extra("C_unseen_corpora", json!(probes_c.len()));

    // ---------------- family D (fixed vocabulary) ----------------
    let words_d = ["aa", "bb", "aa bb", "Aa", "zz", "e\u{301}e"];
    let fixed_d: Vec<Vec<String>> = en::sequences_upto(3, words_d.len()).into_iter().map(|ix| ix.iter().map(|&i| words_d[i].to_string()).collect()).collect();
    let fixed_d = std::sync::Arc::new(fixed_d);
    for lowercase in [true, false] {
        for normalize in [true, false] {
            for tok in tokenizers {
                for &ng in &[(1usize, 1usize), (1, 2), (2, 2), (1, 3)] {
                    // tf-idf with a fixed vocabulary on a sub-grid (every tf-idf fit compiles the regex again)
                    let with_tfidf = lowercase && normalize && ng == (1, 2) && (tok == "default" || tok == "fn:split_space");
                    let tfidf: Vec<String> = if with_tfidf { vec!["smooth".into(), "nonsmooth".into(), "textbook".into()] } else { vec![] };
                    expected_cases += fixed_d.len() as u64;
                    items.push(Item {
                        family: "D_fixed_vocabulary",
                        settings: Settings { lowercase, normalize, ngram: ng, tokenizer: tok.into(), stopwords: None, df: (0.0, 1.0), max_features: None },
                        corpora: no_corpora.clone(),
                        pool: pool_a.clone(),
                        probes: no_corpora.clone(),
                        tfidf,
                        fixed: fixed_d.clone(),
                    });
                }
            }
        }
    }
    ctx.extra("D_fixed_vocabularies", json!(fixed_d.len()));

    // ---------------- family L (memory layout of the document arrays) ----------------
    let mut corpora_l: Vec<Vec<String>> = Vec::new();
    corpora_l.push(vec![]);
    corpora_l.extend(tuples(&docs_b1, 1));
    corpora_l.extend(tuples(if thorough { &docs_b2 } else { &docs_b1 }, 2));
    if thorough {
        corpora_l.extend(tuples(&docs_b1, 3));
    }
    corpora_l.push(vec!["aa".into(), "bb aa".into(), "cc".into()]);
    corpora_l.push(vec!["".into(), "bb".into(), "bb".into()]);
    corpora_l.push(vec!["aa bb".into(), "bb cc cc".into(), "".into(), "cc aa aa".into()]);
    corpora_l.push(vec!["aa".into(), "bb".into(), "cc".into(), "aa bb".into(), "bb cc".into()]);
    let corpora_l = std::sync::Arc::new(corpora_l);
    for (tok, ng, tfidf) in [
        ("fn:split_whitespace", (1usize, 2usize), if thorough { vec!["smooth", "nonsmooth", "textbook"] } else { vec!["smooth"] }),
        ("default", (1, 1), if thorough { vec!["smooth", "nonsmooth", "textbook"] } else { vec!["smooth"] }),
    ] {
        for chunk in corpora_l.chunks(8) {
            let chunk = std::sync::Arc::new(chunk.to_vec());
            expected_cases += (chunk.len() * LAYOUTS.len() * LAYOUTS.len()) as u64;
            items.push(Item {
                family: "L_layouts",
                settings: Settings { lowercase: true, normalize: true, ngram: ng, tokenizer: tok.into(), stopwords: None, df: (0.0, 1.0), max_features: None },
                corpora: chunk,
                pool: empty_pool.clone(),
                probes: no_corpora.clone(),
                tfidf: tfidf.iter().map(|m| m.to_string()).collect(),
                fixed: no_corpora.clone(),
            });
        }
    }
    ctx.extra("L_corpora", json!(corpora_l.len()));
    ctx.extra("L_layout_pairs_fit_x_transform", json!(LAYOUTS.len() * LAYOUTS.len()));

    // ---------------- family H (history of a params object) ----------------
    let menu = history_menu();
    let corpora_h = std::sync::Arc::new(history_corpora());
    let mut h_pairs = 0u64;
    for a in &menu {
        let reach = menu.iter().filter(|b| reachable(a, b)).count() as u64;
        h_pairs += reach;
        expected_cases += reach * 4 * corpora_h.len() as u64;
        items.push(Item {
            family: "H_history",
            settings: a.clone(),
            corpora: corpora_h.clone(),
            pool: empty_pool.clone(),
            probes: no_corpora.clone(),
            tfidf: vec![],
            fixed: no_corpora.clone(),
        });
    }
    ctx.extra("H_settings_menu", json!(menu.len()));
    ctx.extra("H_ordered_pairs_reachable_by_setters", json!(h_pairs));
    ctx.extra("H_corpora", json!(corpora_h.len()));
    ctx.extra("sweep_items", json!(items.len()));
    ctx.extra("primary_cases_enumerated", json!(expected_cases));

    // ---------------- sweep ----------------
    let total = std::sync::Mutex::new(Stats::default());
    let per_family: std::sync::Mutex<BTreeMap<String, (u64, u64, f64)>> = std::sync::Mutex::new(BTreeMap::new());
    let items_done = AtomicU64::new(0);
    // cheap but structurally distinct families first
    items.sort_by_key(|it| match it.family {
        "H_history" => 0,
        "L_layouts" => 1,
        _ => 2,
    });
    par_sweep(&ctx, "vectoriser sweep", &items, |it| {
        let mut v = Vec::new();
        let t0 = std::time::Instant::now();
        let st = run_item(it, &mut v);
        let dt = t0.elapsed().as_secs_f64();
        ctx.evals(st.evals, st.nontrivial);
        ctx.violations(v);
        total.lock().unwrap().add(&st);
        {
            let mut pf = per_family.lock().unwrap();
            let e = pf.entry(it.family.to_string()).or_insert((0, 0, 0.0));
            e.0 += st.evals;
            e.1 += st.nontrivial;
            e.2 += dt;
        }
        items_done.fetch_add(1, Ordering::Relaxed);
        ctx.sample(|| {
            let tr = it.corpora.get(it.corpora.len() / 2).cloned();
            json!({"family": it.family, "settings": it.settings, "a_training_corpus": tr, "training_corpora_in_item": it.corpora.len(),
                   "fixed_vocabularies_in_item": it.fixed.len(), "pool_documents": it.pool.len(), "tfidf_methods": it.tfidf})
        });
    });
    // family E
    {
        let mut v = Vec::new();
        let mut st = Stats::default();
        idf_grid(&mut st, &mut v);
        ctx.evals(st.evals, st.nontrivial);
        ctx.violations(v);
        per_family.lock().unwrap().insert("E_compute_idf".into(), (st.evals, st.nontrivial, 0.0));
    }
    let t = total.lock().unwrap().clone();
    ctx.extra("items_completed", json!(items_done.load(Ordering::Relaxed)));
    ctx.extra("fits_run_count_and_tfidf", json!(t.fits));
    ctx.extra("primary_cases_run", json!(t.primary_cases));
    if items_done.load(Ordering::Relaxed) == items.len() as u64 && t.primary_cases != expected_cases {
        println!("MACHINERY-ERROR enumerated {} (settings, training corpus | fixed vocabulary) cases but ran {}", expected_cases, t.primary_cases);
        std::process::exit(2);
    }
    ctx.extra("count_transforms_checked", json!(t.transforms));
    ctx.extra("layout_cases_fit_layout_x_transform_layout_x_corpus_x_settings", json!(t.layout_cases));
    ctx.extra("layout_cases_with_a_negative_stride_view", json!(t.layout_cases_negative_stride));
    ctx.extra("histories_run", json!(t.histories));
    ctx.extra("history_setter_applications", json!(t.history_moves));
    ctx.extra("history_pairs_not_reachable_by_setters", json!(t.history_pairs_not_reachable_by_setters));
    // explicit-state view of family H: states = params objects (fresh at A, validated at A, moved to B as same / clone,
    // original after its clone moved), transitions = validate / move / refit steps, traces = whole histories vs the reference
    ctx.add_states(menu.len() as u64 * 3 + h_pairs * 2 * 2 + h_pairs * 2, t.histories * 3 + t.histories / 2, t.histories);
    ctx.extra("tfidf_transforms_checked", json!(t.tfidf_transforms));
    ctx.extra("per_family_evaluations_nontrivial_item_wall_seconds", json!(*per_family.lock().unwrap()));
    ctx.extra("window_cases_with_df_exactly_on_a_bound", json!(t.window_boundary_cases));
    ctx.extra("window_cases_where_floor_and_documented_lower_bound_differ", json!(t.window_fractional_sensitive_cases));
    ctx.extra("window_cases_rejecting_some_entry", json!(t.window_rejects_something));
    ctx.extra("cap_binding_cases", json!(t.cap_binding_cases));
    ctx.extra("cap_cases_with_tie_at_the_cut", json!(t.cap_tie_at_cut_cases));
    ctx.extra("cap_cases_where_df_and_tf_ranking_disagree", json!(t.cap_df_tf_disagree_cases));
    ctx.extra("fits_where_a_stop_word_removed_an_entry", json!(t.stopword_hits));
    ctx.extra("fits_with_empty_vocabulary", json!(t.empty_vocabularies));
    ctx.extra("training_documents_with_tokens_merged_by_lowercase_or_normalise", json!(t.merged_by_lowercase_or_normalise));
    ctx.extra("distinct_vocabularies_applied_to_whole_pool", json!(t.distinct_vocabularies));
    ctx.extra("pool_transforms", json!(t.pool_probes));
    ctx.extra("unseen_documents_with_out_of_vocabulary_items", json!(t.oov_probe_documents));
    ctx.extra("cells_with_count_at_least_2", json!(t.repeated_count_cells));
    ctx.extra("subject_wall_seconds_fit_transform_summed_over_threads", json!([T_FIT.load(Ordering::Relaxed) as f64 * 1e-9, T_TR.load(Ordering::Relaxed) as f64 * 1e-9]));
    ctx.finish(&replay_value);
}
