//! Reference model of the vectorisers: plain strings, BTreeMap recount, no linfa code.

use crate::Settings;
use std::collections::{BTreeMap, HashMap};
use std::rc::Rc;

/// NFKD of the alphabet used by the check (table; anything else is a harness error).
pub fn nfkd(s: &str) -> String {
    let mut out = String::new();
    for c in s.chars() {
        match c {
            '\u{e9}' => out.push_str("e\u{301}"),
            '\u{c9}' => out.push_str("E\u{301}"),
            '\u{fb01}' => out.push_str("fi"),
            '\u{301}' => out.push(c),
            c if c.is_ascii() => out.push(c),
            _ => panic!("reference NFKD table has no entry for {:?}", c),
        }
    }
    out
}

/// Lower-casing of the alphabet used by the check (table).
pub fn lower(s: &str) -> String {
    s.chars()
        .map(|c| match c {
            '\u{c9}' => '\u{e9}',
            '\u{e9}' | '\u{301}' | '\u{fb01}' => c,
            c if c.is_ascii() => c.to_ascii_lowercase(),
            _ => panic!("reference lower-case table has no entry for {:?}", c),
        })
        .collect()
}

pub fn process(s: &Settings, doc: &str) -> String {
    let mut d = doc.to_string();
    if s.normalize {
        d = nfkd(&d);
    }
    if s.lowercase {
        d = lower(&d);
    }
    d
}

fn is_word_char(c: char) -> bool {
    c.is_alphanumeric() || c == '_' || ('\u{300}'..='\u{36f}').contains(&c)
}

/// Maximal runs of characters satisfying `pred` with at least `min_chars` characters.
fn runs(s: &str, pred: impl Fn(char) -> bool, min_chars: usize) -> Vec<String> {
    let mut out = Vec::new();
    let mut cur = String::new();
    for c in s.chars() {
        if pred(c) {
            cur.push(c);
        } else {
            if cur.chars().count() >= min_chars {
                out.push(cur.clone());
            }
            cur.clear();
        }
    }
    if cur.chars().count() >= min_chars {
        out.push(cur);
    }
    out
}

/// Split on one character keeping empty pieces (what a `str::split(char)` tokenizer function yields).
fn split_keep_empty(s: &str, sep: char) -> Vec<String> {
    let mut out = Vec::new();
    let mut cur = String::new();
    for c in s.chars() {
        if c == sep {
            out.push(cur.clone());
            cur.clear();
        } else {
            cur.push(c);
        }
    }
    out.push(cur);
    out
}

pub fn tokens(s: &Settings, processed: &str) -> Vec<String> {
    match s.tokenizer.as_str() {
        "default" => runs(processed, is_word_char, 2),
        "re:ascii_letters" => runs(processed, |c| c.is_ascii_alphabetic(), 1),
        "re:nonspace" | "fn:split_whitespace" => runs(processed, |c| !c.is_whitespace(), 1),
        "fn:split_space" => split_keep_empty(processed, ' '),
        "fn:split_semicolon" => split_keep_empty(processed, ';'),
        t => panic!("unknown tokenizer {}", t),
    }
}

/// Every n-gram occurrence (start position x length in the range), joined with one space.
pub fn ngrams(toks: &[String], range: (usize, usize)) -> Vec<String> {
    let mut out = Vec::new();
    for i in 0..toks.len() {
        for n in range.0..=range.1 {
            if i + n <= toks.len() {
                out.push(toks[i..i + n].join(" "));
            }
        }
    }
    out
}

pub struct DocRef {
    /// n-gram -> number of occurrences in the document
    pub counts: BTreeMap<String, usize>,
    /// processing (normalise / lower-case) changed the text
    pub merged: bool,
}

pub fn doc_ref(s: &Settings, doc: &str) -> DocRef {
    let p = process(s, doc);
    let toks = tokens(s, &p);
    let mut counts = BTreeMap::new();
    for g in ngrams(&toks, s.ngram) {
        *counts.entry(g).or_insert(0) += 1;
    }
    DocRef { counts, merged: p != doc }
}

/// Memo of `doc_ref` for one settings value (pure function; only saves time).
#[derive(Default)]
pub struct RefCache {
    settings: Option<Settings>,
    map: HashMap<String, Rc<DocRef>>,
}

impl RefCache {
    pub fn get(&mut self, s: &Settings, doc: &str) -> Rc<DocRef> {
        if self.settings.as_ref() != Some(s) {
            self.settings = Some(s.clone());
            self.map.clear();
        }
        if let Some(r) = self.map.get(doc) {
            return r.clone();
        }
        let r = Rc::new(doc_ref(s, doc));
        self.map.insert(doc.to_string(), r.clone());
        r
    }
}
